------------------------------ MODULE Recovery ------------------------------
(***************************************************************************)
(* Admissible damage for property C03: a file of well-formed top-level     *)
(* definitions is damaged only inside the body of one of them (the         *)
(* victim) - tokens inserted, deleted or replaced there, without           *)
(* introducing an opening delimiter or a string/comment opener and         *)
(* keeping that body's braces balanced.  The specification predicts:       *)
(* every other definition is still recognised with the same kind, name     *)
(* and text, in the same order, and every syntax error lies inside the     *)
(* victim.                                                                 *)
(*                                                                         *)
(* Items come from a seed file (definitions cut from GleamSyn programs and *)
(* hand-written ones): [kind, name, lex, lo, hi] where lex[lo] and lex[hi] *)
(* are the outermost braces (lo = hi = 0 for items without a body: those   *)
(* are only ever bystanders).  A constant or type alias has a body that is *)
(* not delimited by braces: everything after its `=` (open = TRUE, lo =    *)
(* the position of `=`, hi = Len(lex) + 1).  Damage at the open end of     *)
(* such a body with a token that can START a definition (pub, fn, type,    *)
(* const, import, opaque, external, @) would change the text of the NEXT   *)
(* definition under any reading, so those tokens are not in the damage     *)
(* alphabet of an open body.  A behaviour chooses a file (sequence of      *)
(* items), a victim with a body, and applies up to MaxEdits edits at       *)
(* positions strictly inside the victim's body.                            *)
(***************************************************************************)
EXTENDS Naturals, Sequences, FiniteSets, TLC, Json, IOUtils

CONSTANTS MaxEdits, FileLen, Sim

Items == ndJsonDeserialize(IOEnv.ITEMS)

\* every lexeme that is neither an opening delimiter ( [ { << # nor a string / comment opener, nor a brace
DamageLex == {"as", "assert", "case", "const", "external", "fn", "if", "import", "let", "opaque", "panic", "pub", "todo", "type", "use",
              "a", "A", "_x", "aB", "A_b", "1", "1.5", "\"s\"",
              \* complete string literals whose end a lexer may misjudge: ending in an escaped backslash, holding an escaped quote
              "\"\\\\\"", "\"a\\\"b\"", "\"c:\\\\\"",
              "+", "-", "*", "/", "<", ">", "<=", ">=", "+.", "-.", "*.", "/.", "%", "<.", ">.", "<=.", ">=.", "<>", "==", "!=",
              "||", "&&", "|>", "!", ")", "]", ">>", ",", ":", ".", "..", "->", "<-", "=", "|", "@", "$", "~"}
DefStart == {"pub", "fn", "type", "const", "import", "opaque", "external", "@"}
Openers == {"(", "[", "{", "<<", "#", "\"", "//", "#("}
Braces  == {"{", "}"}

VARIABLES file,     \* sequence of item indices
          victim,   \* position in file (0 = not chosen yet)
          body,     \* the victim's current lexemes
          lo, hi,   \* positions of its outermost braces in body
          edits     \* the edits applied so far
vars == <<file, victim, body, lo, hi, edits>>

Pick(S) == IF Sim /\ S # {} THEN {RandomElement(S)} ELSE S

HasBody(i) == Items[i].lo > 0
IsOpen == victim # 0 /\ Items[file[victim]].open
Alphabet == IF IsOpen THEN DamageLex \ DefStart ELSE DamageLex

\* files that contain at least one definition with a body (a possible victim); exhaustive mode: the victim first,
\* then one of the designated followers (one per way a following definition can start)
Files == IF Sim THEN {f \in [1..FileLen -> 1..Len(Items)] : \E p \in 1..FileLen : HasBody(f[p])}
         ELSE {f \in [1..2 -> 1..Len(Items)] : HasBody(f[1]) /\ Items[f[2]].follower}

Init == /\ \E f \in Pick(Files) : file = f
        /\ victim = 0 /\ body = <<>> /\ lo = 0 /\ hi = 0 /\ edits = <<>>

Choose == /\ victim = 0
          /\ \E v \in Pick({p \in 1..Len(file) : HasBody(file[p]) /\ (Sim \/ p = 1)}) :
               /\ victim' = v
               /\ body' = Items[file[v]].lex
               /\ lo' = Items[file[v]].lo /\ hi' = Items[file[v]].hi
          /\ UNCHANGED <<file, edits>>

\* edits never touch a brace and never introduce an opener
Insert == \E p \in Pick(lo..(hi - 1)), x \in Pick(Alphabet) :
            /\ body' = SubSeq(body, 1, p) \o <<x>> \o SubSeq(body, p + 1, Len(body))
            /\ hi' = hi + 1
            /\ edits' = Append(edits, [k |-> "ins", p |-> p, x |-> x])
Delete == \E p \in Pick({q \in (lo + 1)..(hi - 1) : body[q] \notin Braces}) :
            /\ body' = SubSeq(body, 1, p - 1) \o SubSeq(body, p + 1, Len(body))
            /\ hi' = hi - 1
            /\ edits' = Append(edits, [k |-> "del", p |-> p, x |-> body[p]])
Replace == \E p \in Pick({q \in (lo + 1)..(hi - 1) : body[q] \notin Braces}), x \in Pick(Alphabet) :
            /\ body' = [body EXCEPT ![p] = x]
            /\ hi' = hi
            /\ edits' = Append(edits, [k |-> "rep", p |-> p, x |-> x])

Edit == /\ victim # 0 /\ Len(edits) < MaxEdits
        /\ (Insert \/ Delete \/ Replace)
        /\ UNCHANGED <<file, victim, lo>>

Case == [items |-> [p \in 1..Len(file) |->
                      IF p = victim THEN [kind |-> Items[file[p]].kind, name |-> Items[file[p]].name, lex |-> body, victim |-> TRUE]
                      ELSE [kind |-> Items[file[p]].kind, name |-> Items[file[p]].name, lex |-> Items[file[p]].lex, victim |-> FALSE]],
         edits |-> edits]

Finish == /\ Sim /\ victim # 0 /\ Len(edits) = MaxEdits
          /\ PrintT(<<"CASE", ToJson(Case)>>)
          /\ \E f \in Pick(Files) : file' = f
          /\ victim' = 0 /\ body' = <<>> /\ lo' = 0 /\ hi' = 0 /\ edits' = <<>>

Next == Choose \/ Edit \/ Finish
Spec == Init /\ [][Next]_vars

-----------------------------------------------------------------------------
\* the precondition of C03 holds by construction in every reachable state
RECURSIVE Depth(_, _, _)
Depth(s, i, d) == IF i > Len(s) THEN d
                  ELSE IF d < 0 THEN d
                  ELSE Depth(s, i + 1, IF s[i] = "{" THEN d + 1 ELSE IF s[i] = "}" THEN d - 1 ELSE d)
Admissible == victim # 0 =>
                 /\ IF IsOpen THEN body[lo] = "=" /\ hi = Len(body) + 1
                               ELSE body[lo] = "{" /\ body[hi] = "}"
                 /\ Depth(SubSeq(body, lo, IF IsOpen THEN Len(body) ELSE hi), 1, 0) = 0   \* braces balanced
                 /\ IsOpen => \A e \in {edits[i] : i \in 1..Len(edits)} : e.k \in {"ins", "rep"} => e.x \notin DefStart
                 /\ \A e \in {edits[i] : i \in 1..Len(edits)} : e.k \in {"ins", "rep"} => e.x \notin Openers
                 /\ SubSeq(body, 1, lo) = SubSeq(Items[file[victim]].lex, 1, lo)   \* nothing before the body changed
EmitCase == (~Sim /\ victim # 0 /\ edits # <<>>) => PrintT(<<"CASE", ToJson(Case)>>)
=============================================================================
