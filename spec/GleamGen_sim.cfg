CONSTANTS Budget = 7 MaxItems = 3 Sim = TRUE Headers = "all"
  Masked = {}
SPECIFICATION Spec
INVARIANTS PendingInvisible TargetsAreBinders Balanced ScopeDeclarative
CHECK_DEADLOCK FALSE
