\* C16 MC, liveness under fairness (today's design, 2 documents, 1 request)
CONSTANTS
 Docs = {"d1", "d2"}
 Mode = "conc"
 MaxEdits = 2
 MaxReqs = 1
 MaxInFlight = 2
 ReqKinds = {"plain", "conv"}
 QueryOutcomes = {"ok"}
 ReadWithLiveVfs = TRUE
 ConvertWithLiveVfs = TRUE
 CancelledDiagPublishesEmpty = TRUE
 RespawnAllDiags = FALSE
 PublishOnlyLatest = FALSE
 HoldVfsAcrossApply = FALSE
 SnapshotInTask = FALSE
 CancelledAnsweredOk = FALSE
 AnsFree = FALSE
 PollWhileWaiting = FALSE
 PreFixF9 = FALSE
 PreFixWDel = FALSE
 ThirdPartyFatal = FALSE
 Gen = "none"
 ScriptLen = 0
SPECIFICATION FairSpec
PROPERTIES ReqLive ApplyLive InboxLive
CHECK_DEADLOCK FALSE
