\* vacuity: without cancellation a long query blocks apply_change for ever - Prompt must be violated
CONSTANTS
  Readers = {1, 2}
  Files = {1, 2}
  K = 2
  MaxQ = 2
  ExclusiveHost = TRUE
  ChecksFlag = FALSE
  SyntheticWrite = TRUE
  LastWins = TRUE
  MaxDup = 1
  MaxMeta = 0
SPECIFICATION Spec
INVARIANTS TypeOK Isolation NoTornRead Frozen CancelledOnlyIfPending VersionsDistinct NoIntermediate
PROPERTIES Prompt
CHECK_DEADLOCK TRUE
