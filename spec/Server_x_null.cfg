\* EXPECTED VIOLATION (seeded defect): a query cancelled by a pending change is answered with a successful null
CONSTANTS
 Docs = {"d1"}
 Mode = "conc"
 MaxEdits = 2
 MaxReqs = 2
 MaxInFlight = 2
 ReqKinds = {"plain", "conv"}
 QueryOutcomes = {"ok"}
 ReadWithLiveVfs = FALSE
 ConvertWithLiveVfs = FALSE
 CancelledDiagPublishesEmpty = FALSE
 RespawnAllDiags = TRUE
 PublishOnlyLatest = TRUE
 HoldVfsAcrossApply = FALSE
 SnapshotInTask = FALSE
 CancelledAnsweredOk = TRUE
 AnsFree = FALSE
 PollWhileWaiting = FALSE
 PreFixF9 = FALSE
 PreFixWDel = FALSE
 ThirdPartyFatal = FALSE
 Gen = "none"
 ScriptLen = 0
SPECIFICATION Spec
INVARIANTS AnswerContent
CHECK_DEADLOCK FALSE
