------------------------------- MODULE Host -------------------------------
(***************************************************************************)
(* C12 - snapshots are isolated from later changes; changes cancel, never  *)
(* block.                                                                  *)
(*                                                                         *)
(* The machine under ide::AnalysisHost / ide::Analysis as it really is     *)
(* (DESIGN Appendix B; salsa 0.17.0-pre.2 runtime.rs, glas ide/mod.rs,     *)
(* base.rs):                                                               *)
(*  - a snapshot is NOT a copy of the inputs: it is a read lock on the one  *)
(*    storage (`query_lock`, taken in Runtime::snapshot, released when the  *)
(*    Analysis is dropped).  Queries on it read the live inputs, one input  *)
(*    at a time; every query entry first compares pending_revision with     *)
(*    current_revision and unwinds with Cancelled when a write is pending   *)
(*    (Analysis::with_db turns that into Err(Cancelled)).                   *)
(*  - apply_change(change) = request_cancellation (a synthetic write) and   *)
(*    then Change::apply: the writes the Change carries, in the order they  *)
(*    were queued - first the roots / package graph if it has them (salsa    *)
(*    writes that store no file text: entries 0), then one `set_file_content`*)
(*    per QUEUED content.  The server queues one content per edit it took    *)
(*    from the editor, so a Change may hold two successive contents for the  *)
(*    same file (entry -f = an intermediate text of file f, entry f = the    *)
(*    text f has when the Change is complete); the abstract effect of the    *)
(*    call is "last content queued per file" (ApplyEffect, NoIntermediate).  *)
(*    Each of these writes:                                                  *)
(*    (1) pending_revision += 1   -- the cancellation flag, no lock needed  *)
(*    (2) query_lock.write()      -- waits until every snapshot is dropped  *)
(*    (3) current_revision += 1 (flag is down again), store the value       *)
(*    (4) unlock.                                                           *)
(*  - `snapshot` takes &self and `apply_change` &mut self: no snapshot can  *)
(*    be taken between the writes of one apply_change (ExclusiveHost).      *)
(* Isolation is therefore a THEOREM of the protocol, not an assumption of   *)
(* the model: QueryStep reads the live `inputs`; the invariants below say   *)
(* that what it read is exactly the workspace of the snapshot's version.    *)
(*                                                                         *)
(* One action per critical section / atomic operation.  The four BOOLEAN    *)
(* constants are TRUE for glas; the negative configurations (Host_torn,     *)
(* Host_nocancel, Host_firstwins) switch one off to show that the           *)
(* invariants and the liveness property are not vacuous.                    *)
(***************************************************************************)
EXTENDS Integers, Sequences, FiniteSets, TLC

CONSTANTS Readers,        \* reader threads
          Files,          \* module files (a set of positive naturals)
          K,              \* number of apply_change calls the writer makes
          MaxQ,           \* queries per snapshot
          ExclusiveHost,  \* snapshot() impossible while apply_change runs (&self / &mut self)
          ChecksFlag,     \* query entries check the pending-write flag
          SyntheticWrite, \* apply_change starts with request_cancellation (unobservable: see NOTE below)
          LastWins,       \* Change::apply stores every queued content in queue order (so the last one stays)
          MaxDup,         \* at most this many files of one Change carry an intermediate content before the final one
          MaxMeta         \* at most this many writes without file text (roots, package graph) open a Change

VARIABLES ver,          \* completed apply_change calls = version a new snapshot sees
          inputs,       \* [Files -> 0..2K] live salsa inputs: the content id of each file (c = final text of change c,
                        \*                 K + c = an intermediate text queued by change c before its final one)
          inputsAt,     \* inputsAt[v+1] = the inputs of version v  (history variable)
          pendingWrite, \* pending_revision > current_revision
          wpc,          \* "idle" | "called" | "flagged" (flag up, waiting for the write lock) | "setting" (lock held)
          todo,         \* writes left in the apply_change in progress: f = final text of file f, -f = an intermediate
                        \*   text of file f, 0 = a write without file text (synthetic write, roots, package graph)
          batch,        \* all the writes of the apply_change in progress (= todo when it was called)
          chg,          \* the change in progress (= content id it stores)
          rpc,          \* "idle" (no snapshot) | "ready" | "running" | "done"
          snapVer,      \* version current when r's snapshot was taken
          acc,          \* inputs read so far by r's running query: [Files -> -1..K], -1 = not read yet
          tick,         \* toggled by every step of a running query: queries may be arbitrarily long
          nq,           \* queries started on r's snapshot
          result        \* [kind : {"none","ok","cancelled"}, obs : [Files -> -1..K]]

vars == <<ver, inputs, inputsAt, pendingWrite, wpc, todo, batch, chg, rpc, snapVer, acc, tick, nq, result>>
wvars == <<ver, inputs, inputsAt, pendingWrite, wpc, todo, batch, chg>>
rvars == <<rpc, snapVer, acc, tick, nq, result>>

Unread == [f \in Files |-> -1]
NoResult == [kind |-> "none", obs |-> Unread]
Obs(inp) == inp           \* what a query answers is a function of all inputs; identity = most discriminating

Abs(x) == IF x < 0 THEN -x ELSE x
Mid(c) == K + c                                  \* different from every final content 0..K and from every other Mid
ContentOf(e, c) == IF e > 0 THEN c ELSE Mid(c)   \* what write e of change c stores

(* The file writes of one Change, in queue order: every touched file once with its final text, up to MaxDup of *)
(* them also with an intermediate text somewhere BEFORE it (any interleaving with the other files' writes).    *)
Entries == Files \cup {-f : f \in Files}
WellFormed(b) == /\ Len(b) >= 1
                 /\ \A i \in 1..Len(b) : b[i] \in Entries
                 /\ \A i, j \in 1..Len(b) : i # j => b[i] # b[j]
                 /\ \A i \in 1..Len(b) : b[i] < 0 => \E j \in (i+1)..Len(b) : b[j] = -b[i]
                 /\ Cardinality({i \in 1..Len(b) : b[i] < 0}) <= MaxDup
AllBatches == {b \in UNION {[1..n -> Entries] : n \in 1..(Cardinality(Files) + MaxDup)} : WellFormed(b)}
Zeros(n) == [i \in 1..n |-> 0]
(* a whole Change: writes without file text first (Change::apply sets package graph and roots first) *)
WellFormedTodo(t) == \E n \in 0..(Len(t) - 1) : /\ \A i \in 1..n : t[i] = 0
                                                /\ WellFormed(SubSeq(t, n + 1, Len(t)))

(* the abstract effect of applying the writes b of change c to the workspace old: last content queued per file *)
Touched(b) == {Abs(b[i]) : i \in 1..Len(b)} \ {0}
LastIdx(b, f) == CHOOSE i \in 1..Len(b) : Abs(b[i]) = f /\ \A j \in (i+1)..Len(b) : Abs(b[j]) # f
Effect(old, b, c) == [f \in Files |-> IF f \in Touched(b) THEN ContentOf(b[LastIdx(b, f)], c) ELSE old[f]]

Live(r) == rpc[r] # "idle"      \* r holds the read lock

Init == /\ ver = 0 /\ inputs = [f \in Files |-> 0] /\ inputsAt = <<[f \in Files |-> 0]>>
        /\ pendingWrite = FALSE /\ wpc = "idle" /\ todo = <<>> /\ batch = <<>> /\ chg = 0
        /\ rpc = [r \in Readers |-> "idle"] /\ snapVer = [r \in Readers |-> 0]
        /\ acc = [r \in Readers |-> Unread] /\ tick = [r \in Readers |-> FALSE]
        /\ nq = [r \in Readers |-> 0] /\ result = [r \in Readers |-> NoResult]

----------------------------------------------------------------------------
(* readers *)

Snapshot(r) == /\ rpc[r] = "idle"
               /\ wpc # "setting"                       \* read lock is not available while the write lock is held
               /\ ExclusiveHost => wpc = "idle"         \* &self while &mut self is outstanding: impossible
               /\ rpc' = [rpc EXCEPT ![r] = "ready"]
               /\ snapVer' = [snapVer EXCEPT ![r] = ver]
               /\ nq' = [nq EXCEPT ![r] = 0]
               /\ result' = [result EXCEPT ![r] = NoResult]
               /\ UNCHANGED <<wvars, acc, tick>>

QueryStart(r) == /\ rpc[r] \in {"ready", "done"} /\ nq[r] < MaxQ
                 /\ rpc' = [rpc EXCEPT ![r] = "running"]
                 /\ acc' = [acc EXCEPT ![r] = Unread]
                 /\ nq' = [nq EXCEPT ![r] = @ + 1]
                 /\ result' = [result EXCEPT ![r] = NoResult]
                 /\ UNCHANGED <<wvars, snapVer, tick>>

(* one salsa query entry: check the flag, then read one input (possibly again) *)
QueryStep(r) == /\ rpc[r] = "running"
                /\ IF ChecksFlag /\ pendingWrite
                   THEN /\ result' = [result EXCEPT ![r] = [kind |-> "cancelled", obs |-> Unread]]
                        /\ rpc' = [rpc EXCEPT ![r] = "done"]
                        /\ acc' = [acc EXCEPT ![r] = Unread]
                        /\ tick' = [tick EXCEPT ![r] = FALSE]
                   ELSE /\ \E f \in Files : acc' = [acc EXCEPT ![r][f] = inputs[f]]
                        /\ tick' = [tick EXCEPT ![r] = ~@]
                        /\ UNCHANGED <<rpc, result>>
                /\ UNCHANGED <<wvars, snapVer, nq>>

(* past its last query entry: the answer is computed from what was read *)
QueryFinish(r) == /\ rpc[r] = "running"
                  /\ \A f \in Files : acc[r][f] # -1
                  /\ result' = [result EXCEPT ![r] = [kind |-> "ok", obs |-> Obs(acc[r])]]
                  /\ rpc' = [rpc EXCEPT ![r] = "done"]
                  /\ acc' = [acc EXCEPT ![r] = Unread]
                  /\ tick' = [tick EXCEPT ![r] = FALSE]
                  /\ UNCHANGED <<wvars, snapVer, nq>>

Drop(r) == /\ rpc[r] \in {"ready", "done"}
           /\ rpc' = [rpc EXCEPT ![r] = "idle"]
           /\ snapVer' = [snapVer EXCEPT ![r] = 0]      \* (dead values are normalised to keep the state space small)
           /\ nq' = [nq EXCEPT ![r] = 0]
           /\ result' = [result EXCEPT ![r] = NoResult]
           /\ UNCHANGED <<wvars, acc, tick>>

----------------------------------------------------------------------------
(* the writer *)

ApplyCallWith(t) == /\ wpc = "idle" /\ ver < K
                    /\ todo' = t /\ batch' = t
                    /\ chg' = ver + 1
                    /\ wpc' = "called"
                    /\ UNCHANGED <<ver, inputs, inputsAt, pendingWrite, rvars>>

ApplyCall == \E b \in AllBatches, m \in 0..MaxMeta :
               ApplyCallWith(Zeros((IF SyntheticWrite THEN 1 ELSE 0) + m) \o b)

ApplyBegin == /\ wpc = "called" /\ todo # <<>>          \* pending_revision.fetch_then_increment()
              /\ pendingWrite' = TRUE
              /\ wpc' = "flagged"
              /\ UNCHANGED <<ver, inputs, inputsAt, todo, batch, chg, rvars>>

ApplyAcquire == /\ wpc = "flagged"                      \* query_lock.write(); revisions[0] += 1
                /\ \A r \in Readers : ~Live(r)
                /\ pendingWrite' = FALSE
                /\ wpc' = "setting"
                /\ UNCHANGED <<ver, inputs, inputsAt, todo, batch, chg, rvars>>

(* f was already stored by an earlier write of the apply_change in progress *)
Written(f) == \E i \in 1..(Len(batch) - Len(todo)) : Abs(batch[i]) = f

ApplySet == /\ wpc = "setting"                          \* op(new_revision); drop(lock)
            /\ LET e == Head(todo) IN
                 inputs' = IF e = 0 \/ (~LastWins /\ Written(Abs(e))) THEN inputs
                           ELSE [inputs EXCEPT ![Abs(e)] = ContentOf(e, chg)]
            /\ todo' = Tail(todo)
            /\ wpc' = "called"
            /\ UNCHANGED <<ver, inputsAt, pendingWrite, batch, chg, rvars>>

ApplyEnd == /\ wpc = "called" /\ todo = <<>>            \* apply_change returns
            /\ ver' = ver + 1
            /\ inputsAt' = Append(inputsAt, inputs)
            /\ wpc' = "idle"
            /\ batch' = <<>>
            /\ UNCHANGED <<inputs, pendingWrite, todo, chg, rvars>>

----------------------------------------------------------------------------
ReaderStep(r) == QueryStart(r) \/ QueryStep(r) \/ QueryFinish(r) \/ Drop(r)
WriterStep == ApplyBegin \/ ApplyAcquire \/ ApplySet \/ ApplyEnd

Next == \/ \E r \in Readers : Snapshot(r) \/ ReaderStep(r)
        \/ ApplyCall \/ WriterStep

(* Fairness: a reader that holds a snapshot keeps running (it may stay inside one query for    *)
(* ever as long as no write is pending: tick); the writer's own steps are taken when possible. *)
(* Nobody is obliged to take a snapshot or to call apply_change.                               *)
Spec == Init /\ [][Next]_vars /\ (\A r \in Readers : WF_vars(ReaderStep(r))) /\ WF_vars(WriterStep)

----------------------------------------------------------------------------
Vals == -1 .. 2 * K
TypeOK == /\ ver \in 0..K /\ inputs \in [Files -> 0..2*K] /\ Len(inputsAt) = ver + 1
          /\ pendingWrite \in BOOLEAN /\ wpc \in {"idle", "called", "flagged", "setting"}
          /\ chg \in 0..K /\ \A i \in 1..Len(batch) : batch[i] \in Entries \cup {0}
          /\ Len(todo) <= Len(batch) /\ todo = SubSeq(batch, Len(batch) - Len(todo) + 1, Len(batch))
          /\ rpc \in [Readers -> {"idle", "ready", "running", "done"}]
          /\ snapVer \in [Readers -> 0..K] /\ acc \in [Readers -> [Files -> Vals]]
          /\ nq \in [Readers -> 0..MaxQ]
          /\ \A r \in Readers : result[r].kind \in {"none", "ok", "cancelled"}

(* isolation: an answer is the answer for the snapshot's own workspace, or Cancelled - nothing else *)
Isolation == \A r \in Readers :
               rpc[r] = "done" => \/ result[r].kind = "cancelled"
                                  \/ /\ result[r].kind = "ok"
                                     /\ result[r].obs = Obs(inputsAt[snapVer[r] + 1])

(* no torn reads: whatever a running query has read so far belongs to the snapshot's version *)
NoTornRead == \A r \in Readers : rpc[r] = "running" =>
                \A f \in Files : acc[r][f] # -1 => acc[r][f] = inputsAt[snapVer[r] + 1][f]

(* the lemma behind both: while a snapshot lives the inputs are those of its version, which is  *)
(* the current one; so a snapshot taken after ApplyEnd sees the new version and no snapshot of  *)
(* an older version survives an ApplyEnd                                                        *)
Frozen == \A r \in Readers : Live(r) => /\ snapVer[r] = ver
                                        /\ inputs = inputsAt[ver + 1]
                                        /\ wpc # "setting"

(* a snapshot is only ever taken of a completed version (action property) *)
SnapshotSeesCommitted == [][\A r \in Readers : (~Live(r) /\ Live(r)') =>
                               (snapVer'[r] = ver /\ inputs = inputsAt[ver + 1])]_vars

(* Cancelled is reported only while a write is pending *)
CancelledOnlyIfPending == \A r \in Readers :
                            (rpc[r] = "done" /\ result[r].kind = "cancelled") => pendingWrite

(* A Change with several contents for one file: what apply_change leaves behind is the LAST content queued per *)
(* file (action property, at the step in which apply_change returns) ...                                      *)
ApplyEffect == [][(wpc # "idle" /\ wpc' = "idle") => inputs' = Effect(inputsAt[ver + 1], batch, chg)]_vars

(* ... so no completed version contains an intermediate text, the workspace a new snapshot can see never has   *)
(* one, and no query ever reads one or answers for one: answers are for the old version, the new one, or       *)
(* Cancelled                                                                                                   *)
NoIntermediate == /\ \A i \in 1..Len(inputsAt) : \A f \in Files : inputsAt[i][f] \in 0..K
                  /\ wpc = "idle" => \A f \in Files : inputs[f] \in 0..K
                  /\ \A r \in Readers : \A f \in Files : acc[r][f] \in -1..K /\ result[r].obs[f] \in -1..K

(* versions differ from each other: every change is visible *)
VersionsDistinct == \A i, j \in 1..Len(inputsAt) : i # j => inputsAt[i] # inputsAt[j]

(* changes cancel, never block: an apply_change that was called returns *)
Prompt == (wpc # "idle") ~> (wpc = "idle")

(* NOTE SyntheticWrite: with FALSE the same invariants and Prompt hold and the projection on     *)
(* (Snapshot, QueryStart, QueryFinish/Cancelled, Drop, ApplyCall, ApplyEnd) is the same language: *)
(* the first real set_* raises the flag exactly as the synthetic write does.  The check must not  *)
(* depend on the explicit request_cancellation.                                                   *)
=============================================================================
