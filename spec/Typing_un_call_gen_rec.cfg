CONSTANTS Budget = 8 NFuns = 3 Sim = TRUE Masked = {"lambda_annot", "none_call_gen_rec"}
SPECIFICATION Spec
INVARIANTS Closed BindersTyped
CHECK_DEADLOCK FALSE
