CONSTANTS Budget = 6 Sim = TRUE Start = "FILE"
  Masked = {"todo_operand", "none_p_neg", "p_as_var"}
SPECIFICATION Spec
INVARIANTS Balanced
CHECK_DEADLOCK FALSE
