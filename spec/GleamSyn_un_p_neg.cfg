CONSTANTS Budget = 6 Sim = TRUE Start = "FILE"
  Masked = {"todo_operand", "none_p_neg"}
SPECIFICATION Spec
INVARIANTS Balanced
CHECK_DEADLOCK FALSE
