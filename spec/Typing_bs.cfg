CONSTANTS Budget = 0 NFuns = 2 Sim = FALSE Mode = "sigs" MaxParams = 4 Rounds = 6 Focus = {}
  Masked = {"lambda_annot", "call_gen_rec", "call_rec_labels", "late_use"}
SPECIFICATION Spec
INVARIANTS Closed BindersTyped BindersScoped SigsWellFormed Derivable GenericsAcyclic EmitCase
CHECK_DEADLOCK FALSE
