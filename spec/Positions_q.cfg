CONSTANTS MaxLen = 5  EmitAll = TRUE
SPECIFICATION Spec
INVARIANTS TableMatchesReference StrictlyMonotone PositionsInjective Emit
CHECK_DEADLOCK FALSE
