\* today's design, 1 document: everything but NoMixture / diagnostics convergence
CONSTANTS
 Docs = {"d1"}
 Mode = "conc"
 MaxEdits = 2
 MaxReqs = 2
 MaxInFlight = 2
 ReqKinds = {"plain", "conv"}
 QueryOutcomes = {"ok"}
 ReadWithLiveVfs = TRUE
 ConvertWithLiveVfs = TRUE
 CancelledDiagPublishesEmpty = TRUE
 RespawnAllDiags = FALSE
 PublishOnlyLatest = FALSE
 HoldVfsAcrossApply = FALSE
 SnapshotInTask = FALSE
 CancelledAnsweredOk = FALSE
 AnsFree = FALSE
 PollWhileWaiting = FALSE
 PreFixF9 = FALSE
 PreFixWDel = FALSE
 ThirdPartyFatal = FALSE
 Gen = "none"
 ScriptLen = 0
SPECIFICATION Spec
INVARIANTS TypeOK NoDeadlock AtMostOneResponse AllAnswered IssuedVersion AnswerContent TextConvergence LockDiscipline Alive
CHECK_DEADLOCK FALSE
