------------------------------- MODULE Ranges -------------------------------
(***************************************************************************)
(* Monitor for property C20: every offset range the analysis reports lies  *)
(* inside the document it refers to.                                       *)
(*                                                                         *)
(* Each line of the trace file is one distinct reported range with the     *)
(* facts the monitor needs (recorded by the harness from the real answers  *)
(* and from the lexer):                                                    *)
(*   kind   what the range is (diagnostic, hover, goto_full, goto_focus,   *)
(*          reference, highlight, rename_edit, completion_source,          *)
(*          prepare_rename, semantic, diagnostic_note)                     *)
(*   f, nf  the file it names and the number of files of the workspace     *)
(*   s, e   start / end byte offsets;  len  length of that file            *)
(*   bs, be whether s / e are character boundaries                         *)
(*   ntok   number of lexer tokens the range tiles exactly, -1 if it cuts  *)
(*          through a token (0 for an empty range)                         *)
(*   modpath the range is exactly a module-path node of the file's tree     *)
(*   os, oe for a focus range: the full range that must contain it         *)
(*   lsp, sl, sc, el, ec, nl, l16s, l16e  the range after the server's own *)
(*          conversion to LSP positions (line, UTF-16 column), the number  *)
(*          of lines of the client's copy and the UTF-16 lengths of the    *)
(*          start and end lines                                            *)
(***************************************************************************)
EXTENDS Integers, Sequences, TLC, Json, IOUtils

Rec == ndJsonDeserialize(IOEnv.TRACE)

VARIABLE tr
Init == tr = 1
Next == tr <= Len(Rec) /\ tr' = tr + 1
Spec == Init /\ [][Next]_tr

\* results that denote a name: exactly one whole token
NameLike  == {"reference", "highlight", "rename_edit", "prepare_rename", "semantic"}
\* results that denote a name or a binder pattern: whole tokens
TokenLike == NameLike \cup {"hover"}

InBounds(r)   == r.f >= 0 /\ r.f < r.nf /\ 0 <= r.s /\ r.s <= r.e /\ r.e <= r.len
OnBoundary(r) == r.bs /\ r.be
FocusInside(r) == r.kind = "goto_focus" => (r.os <= r.s /\ r.e <= r.oe)
WholeTokens(r) == /\ (r.kind \in NameLike => r.ntok = 1)
                  /\ (r.kind \in TokenLike => r.ntok >= 1)
                  \* a definition target is a name / binder pattern (whole tokens) or, for a module, the start of its file
                  /\ (r.kind = "goto_focus" => (r.ntok >= 1 \/ (r.s = 0 /\ r.e = 0)))
                  \* a completion replaces the identifier being typed or nothing
                  \* ... or, inside an import, the whole module path written so far (`a/b/c`)
                  /\ (r.kind = "completion_source" => (r.ntok \in {0, 1} \/ r.modpath))

\* the same range as the client receives it (lsp = TRUE when the server's conversion was applied): both positions name an
\* existing line of the client's copy and a column within it (UTF-16 units), start not after end
LspInside(r) == r.lsp => /\ r.sl < r.nl /\ r.el < r.nl
                         /\ r.sc <= r.l16s /\ r.ec <= r.l16e
                         /\ (r.sl < r.el \/ (r.sl = r.el /\ r.sc <= r.ec))

RangeOK(r) == InBounds(r) /\ OnBoundary(r) /\ FocusInside(r) /\ WholeTokens(r) /\ LspInside(r)

Explain == (tr > 1 /\ ~RangeOK(Rec[tr - 1])) =>
              PrintT(<<"FAILED", ToJson([line |-> tr - 1,
                                         bad |-> <<InBounds(Rec[tr - 1]), OnBoundary(Rec[tr - 1]), FocusInside(Rec[tr - 1]), WholeTokens(Rec[tr - 1]), LspInside(Rec[tr - 1])>>])>>)
Done == IF TLCGet("stats").diameter = Len(Rec) + 1 THEN TRUE ELSE Print(<<"INCOMPLETE", TLCGet("stats").diameter>>, FALSE)
=============================================================================
