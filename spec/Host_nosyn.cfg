\* C12 MC without the explicit request_cancellation: same invariants, same liveness (it is redundant)
CONSTANTS
  Readers = {1, 2}
  Files = {1, 2}
  K = 2
  MaxQ = 2
  ExclusiveHost = TRUE
  ChecksFlag = TRUE
  SyntheticWrite = FALSE
SPECIFICATION Spec
INVARIANTS TypeOK Isolation NoTornRead Frozen CancelledOnlyIfPending VersionsDistinct
PROPERTIES Prompt SnapshotSeesCommitted
CHECK_DEADLOCK TRUE
