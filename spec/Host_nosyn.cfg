\* C12 MC without the explicit request_cancellation: same invariants, same liveness (it is redundant)
CONSTANTS
  Readers = {1, 2}
  Files = {1, 2}
  K = 2
  MaxQ = 2
  ExclusiveHost = TRUE
  ChecksFlag = TRUE
  SyntheticWrite = FALSE
  LastWins = TRUE
  MaxDup = 2
  MaxMeta = 0
SPECIFICATION Spec
INVARIANTS TypeOK Isolation NoTornRead Frozen CancelledOnlyIfPending VersionsDistinct NoIntermediate
PROPERTIES Prompt SnapshotSeesCommitted ApplyEffect
CHECK_DEADLOCK TRUE
