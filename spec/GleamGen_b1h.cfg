\* every import header (at most one unqualified item) x the productions whose meaning depends on the imports:
\* references to imported names, qualified names / constructors / labels through every accessor, type annotations
CONSTANTS Budget = 1 MaxItems = 1 Sim = FALSE Headers = "bfs"
  Masked = {"item_b", "params1", "params2", "stmt_seq", "pipe",
            "block", "case", "lambda", "binop", "list", "tuple", "own_ctor_labelled", "own_ctor2_labelled", "own_field",
            "two_clauses", "clause_alt", "unknown_field", "case_nobind_bind", "pas", "plit", "ptuple", "plist", "pconcat", "p_own_ctor", "p_own_ctor2", "p_own_ctor_pos"}
SPECIFICATION Spec
INVARIANTS PendingInvisible TargetsAreBinders Balanced ScopeDeclarative RenameComplete EmitCase
CHECK_DEADLOCK FALSE
