\* C12 MC, thorough: 2 readers x 3 changes x 3 files x 2 queries per snapshot (safety + liveness)
CONSTANTS
  Readers = {1, 2}
  Files = {1, 2, 3}
  K = 3
  MaxQ = 2
  ExclusiveHost = TRUE
  ChecksFlag = TRUE
  SyntheticWrite = TRUE
  LastWins = TRUE
  MaxDup = 1
  MaxMeta = 0
SPECIFICATION Spec
INVARIANTS TypeOK Isolation NoTornRead Frozen CancelledOnlyIfPending VersionsDistinct NoIntermediate
PROPERTIES Prompt SnapshotSeesCommitted ApplyEffect
CHECK_DEADLOCK TRUE
