\* C12 MC, thorough: 2 readers x 3 changes x 3 files x 1 query per snapshot, at most 1 file per Change written twice
\* (any interleaving of the writes); safety + liveness
CONSTANTS
  Readers = {1, 2}
  Files = {1, 2, 3}
  K = 3
  MaxQ = 1
  ExclusiveHost = TRUE
  ChecksFlag = TRUE
  SyntheticWrite = TRUE
  LastWins = TRUE
  MaxDup = 1
  MaxMeta = 0
SPECIFICATION Spec
INVARIANTS TypeOK Isolation NoTornRead Frozen CancelledOnlyIfPending VersionsDistinct NoIntermediate
PROPERTIES Prompt SnapshotSeesCommitted ApplyEffect
CHECK_DEADLOCK TRUE
