CONSTANTS Mode = "damage" MaxSteps = 1
SPECIFICATION Spec
INVARIANTS WellFormed EmitWs
CHECK_DEADLOCK FALSE
