\* C15 GEN: random scripts (simulation)
CONSTANTS
 Docs = {"d1", "d2", "d3", "e", "n", "p", "q", "o", "h", "u", "g"}
 Mode = "seq"
 MaxEdits = 0
 MaxReqs = 12
 MaxInFlight = 1
 ReqKinds = {}
 QueryOutcomes = {"ok", "err"}
 ReadWithLiveVfs = TRUE
 ConvertWithLiveVfs = TRUE
 CancelledDiagPublishesEmpty = TRUE
 RespawnAllDiags = FALSE
 PublishOnlyLatest = FALSE
 HoldVfsAcrossApply = FALSE
 SnapshotInTask = FALSE
 CancelledAnsweredOk = FALSE
 AnsFree = FALSE
 PollWhileWaiting = FALSE
 PreFixF9 = FALSE
 PreFixWDel = FALSE
 ThirdPartyFatal = FALSE
 Gen = "sim"
 ScriptLen = 12
SPECIFICATION Spec
INVARIANTS TypeOK Alive AtMostOneResponse AllAnswered NoDeadlock LockDiscipline StoreApplied
PROPERTIES EditSafety
CHECK_DEADLOCK FALSE
