\* every postfix chain (call / field access / tuple index, on a variable, a constructor or another chain) up to four operators
CONSTANTS Budget = 5 Sim = FALSE Start = "POSTFILE"
  Masked = {"base_block", "call1", "call2", "call_update"}
SPECIFICATION Spec
INVARIANTS Balanced EmitCase
CHECK_DEADLOCK FALSE
