CONSTANTS MaxLen = 7  EmitAll = TRUE
SPECIFICATION Spec
INVARIANTS TableMatchesReference StrictlyMonotone PositionsInjective Emit
CHECK_DEADLOCK FALSE
