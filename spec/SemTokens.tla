----------------------------- MODULE SemTokens -----------------------------
(***************************************************************************)
(* LSP semantic tokens (3.17, relative encoding) over a Positions document. *)
(*                                                                         *)
(* The analysis reports highlights as byte ranges with a tag; the server   *)
(* sends, per token, (deltaLine, deltaStart, length, type) where           *)
(* deltaStart is relative to the previous token's start if both are on     *)
(* the same line and absolute otherwise, and columns/lengths are UTF-16.   *)
(* Encode is the LSP rule, Decode what a client does with the array.       *)
(* Theorems checked in every state: Decode(Encode(P)) = P for the          *)
(* projection P of the highlight list, tokens strictly increasing and      *)
(* non-overlapping, every token inside its line.                           *)
(*                                                                         *)
(* Behaviours: the document is typed (Positions!Type), then highlights     *)
(* are added left to right (AddHl).  Every state with >= 1 highlight       *)
(* prints a CASE: the document, the highlights as byte ranges and the      *)
(* array a conforming encoder must produce.                                *)
(***************************************************************************)
EXTENDS Positions

CONSTANTS MaxHl
Tags == {"function", "module", "constructor"}
\* index of the token type in the legend glas registers (semantic_tokens.rs)
TypeIdx(t) == CASE t = "module" -> 0 [] t = "function" -> 1 [] t = "constructor" -> 2

VARIABLE hls      \* sequence of [i, j, tag]: boundaries i < j of doc, no line feed in between
svars == <<doc, tab, hls>>

InitS == Init /\ hls = <<>>

TypeS == /\ hls = <<>>
         /\ \E ch \in Alphabet : Type(ch)
         /\ UNCHANGED hls

SingleLine(i, j) == \A k \in (i + 1)..j : doc[k] # "nl"

AddHl == /\ Len(hls) < MaxHl
         /\ \E i \in 0..Len(doc), j \in 0..Len(doc), t \in Tags :
              /\ i < j
              /\ SingleLine(i, j)
              /\ (hls # <<>> => hls[Len(hls)].j <= i)
              /\ hls' = Append(hls, [i |-> i, j |-> j, tag |-> t])
         /\ UNCHANGED <<doc, tab>>

NextS == TypeS \/ AddHl
SpecS == InitS /\ [][NextS]_svars

-----------------------------------------------------------------------------
\* what the client should see: (line, utf16 start, utf16 length, type)
Project == [k \in 1..Len(hls) |->
              [line |-> tab[hls[k].i + 1].l,
               start |-> tab[hls[k].i + 1].c,
               len |-> tab[hls[k].j + 1].c - tab[hls[k].i + 1].c,
               type |-> TypeIdx(hls[k].tag)]]

Encode(P) == [k \in 1..Len(P) |->
                LET pl == IF k = 1 THEN 0 ELSE P[k - 1].line
                    ps == IF k = 1 THEN 0 ELSE P[k - 1].start
                    dl == P[k].line - pl
                IN [dl |-> dl,
                    ds |-> IF dl = 0 THEN P[k].start - ps ELSE P[k].start,
                    len |-> P[k].len, type |-> P[k].type]]

RECURSIVE DecodeFrom(_, _, _, _)
DecodeFrom(E, k, line, start) ==
    IF k > Len(E) THEN <<>>
    ELSE LET l == line + E[k].dl
             s == IF E[k].dl = 0 THEN start + E[k].ds ELSE E[k].ds
         IN <<[line |-> l, start |-> s, len |-> E[k].len, type |-> E[k].type]>> \o DecodeFrom(E, k + 1, l, s)
Decode(E) == DecodeFrom(E, 1, 0, 0)

RoundTrip == Decode(Encode(Project)) = Project

\* utf16 length of line n of the document
LineLen(n) == LET ends == {i \in 0..Len(doc) : tab[i + 1].l = n}
              IN tab[(CHOOSE i \in ends : \A k \in ends : k <= i) + 1].c

WellFormed ==
    LET P == Project IN
    /\ \A k \in 1..Len(P) : P[k].len > 0 /\ P[k].start + P[k].len <= LineLen(P[k].line)
    /\ \A k \in 1..(Len(P) - 1) :
          \/ P[k].line < P[k + 1].line
          \/ (P[k].line = P[k + 1].line /\ P[k].start + P[k].len <= P[k + 1].start)
    /\ \A k \in 1..Len(P) : Encode(P)[k].dl >= 0 /\ Encode(P)[k].ds >= 0

EmitS == hls # <<>> =>
           PrintT(<<"CASE", ToJson([doc |-> doc,
                                    hls |-> [k \in 1..Len(hls) |-> [s |-> tab[hls[k].i + 1].b, e |-> tab[hls[k].j + 1].b, tag |-> hls[k].tag]],
                                    enc |-> Encode(Project)])>>)
=============================================================================
