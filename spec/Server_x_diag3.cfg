\* EXPECTED VIOLATION (F8c): respawning all diagnostics without dropping results of superseded tasks
CONSTANTS
 Docs = {"d1"}
 Mode = "conc"
 MaxEdits = 2
 MaxReqs = 0
 MaxInFlight = 2
 ReqKinds = {"plain", "conv"}
 QueryOutcomes = {"ok"}
 ReadWithLiveVfs = FALSE
 ConvertWithLiveVfs = FALSE
 CancelledDiagPublishesEmpty = FALSE
 RespawnAllDiags = TRUE
 PublishOnlyLatest = FALSE
 HoldVfsAcrossApply = FALSE
 SnapshotInTask = FALSE
 CancelledAnsweredOk = FALSE
 AnsFree = FALSE
 PollWhileWaiting = FALSE
 PreFixF9 = FALSE
 PreFixWDel = FALSE
 ThirdPartyFatal = FALSE
 Gen = "none"
 ScriptLen = 0
SPECIFICATION Spec
INVARIANTS Convergence
CHECK_DEADLOCK FALSE
