\* vacuity: a Change::apply that keeps the FIRST content queued for a file (skips later writes of the same file) leaves an
\* intermediate text behind - TLC must refute NoIntermediate / ApplyEffect
\* (otherwise as Host.cfg:) 2 readers x 2 changes x 2 files, 2 queries per snapshot; a Change = any interleaving of its writes with up to 2 files
\* written twice (intermediate, then final text), optionally preceded by a roots/package-graph write; exhaustive, no state constraint; liveness on
CONSTANTS
  Readers = {1, 2}
  Files = {1, 2}
  K = 2
  MaxQ = 2
  ExclusiveHost = TRUE
  ChecksFlag = TRUE
  SyntheticWrite = TRUE
  LastWins = FALSE
  MaxDup = 2
  MaxMeta = 1
SPECIFICATION Spec
INVARIANTS TypeOK Isolation NoTornRead Frozen CancelledOnlyIfPending VersionsDistinct NoIntermediate
PROPERTIES ApplyEffect
CHECK_DEADLOCK TRUE
