CONSTANTS MaxLen = 6 MaxIns = 2 MaxChanges = 2 TrackHist = TRUE HistLen = 10
SPECIFICATION Spec
INVARIANTS InSync
CHECK_DEADLOCK FALSE
