CONSTANTS MaxRaw = 0
SPECIFICATION TSpec
INVARIANTS Contiguous InRange Lossless
POSTCONDITION Accepted
CHECK_DEADLOCK FALSE
