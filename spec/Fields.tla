------------------------------- MODULE Fields -------------------------------
(***************************************************************************)
(* Which fields does a value of a custom type have?  (property C18: after  *)
(* `value.` only fields the value's type has are offered.)                 *)
(*                                                                         *)
(* A custom type is a family of variants, a variant a sequence of fields,  *)
(* a field a label (or none) and a type.  Gleam lets `value.label` be      *)
(* written exactly when EVERY variant has a field with that label, of the  *)
(* same type, at the same position.  The families generated here are       *)
(* position-consistent (a label sits at the same index wherever it         *)
(* occurs), so that position cannot be what decides - label and type do.   *)
(* TLC enumerates every family within the bounds and prints it with the    *)
(* set of labels a conforming completion offers after `value.`.            *)
(***************************************************************************)
EXTENDS Naturals, Sequences, FiniteSets, TLC, Json

Labels == {"x", "y"}
Types  == {"Int", "Float"}
Field  == [l : Labels \cup {""}, ty : Types]          \* "" = positional field
Variant == {v \in UNION {[1..n -> Field] : n \in 0..2} :
               \A i, j \in 1..Len(v) : (i # j /\ v[i].l # "") => v[i].l # v[j].l}
Third  == {<<>>, <<[l |-> "x", ty |-> "Int"]>>, <<[l |-> "x", ty |-> "Int"], [l |-> "y", ty |-> "Float"]>>,
           <<[l |-> "", ty |-> "Int"], [l |-> "y", ty |-> "Int"]>>}
Families == {<<a>> : a \in Variant} \cup {<<a, b>> : a \in Variant, b \in Variant}
            \cup {<<a, b, c>> : a \in Variant, b \in Variant, c \in Third}

Pos(v, l) == {i \in 1..Len(v) : v[i].l = l}
PositionConsistent(f) ==
    \A l \in Labels : \A a, b \in 1..Len(f) : (Pos(f[a], l) # {} /\ Pos(f[b], l) # {}) => Pos(f[a], l) = Pos(f[b], l)

\* the fields of the type: in every variant, with one type
Common(f) == {l \in Labels : /\ \A a \in 1..Len(f) : Pos(f[a], l) # {}
                             /\ \A a, b \in 1..Len(f) : \A i \in Pos(f[a], l), j \in Pos(f[b], l) : f[a][i].ty = f[b][j].ty}

Cases == {f \in Families : PositionConsistent(f)}

\* sanity (checked by TLC when the assumption is evaluated): a common field is a field of every variant
ASSUME \A f \in Cases : \A l \in Common(f) : \A a \in 1..Len(f) : \E i \in 1..Len(f[a]) : f[a][i].l = l
ASSUME \A f \in Cases : PrintT(<<"CASE", ToJson([vs |-> f, common |-> Common(f)])>>)

VARIABLE x
Init == x = 0
Next == x' = x
=============================================================================
