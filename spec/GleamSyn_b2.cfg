CONSTANTS Budget = 2 Sim = FALSE Start = "FILE"
  Masked = {"todo_operand", "p_neg"}
SPECIFICATION Spec
INVARIANTS Balanced EmitCase
CHECK_DEADLOCK FALSE
