CONSTANTS Mode = "tok" Alphabet <- Rep MaxLen = 3 F = 1 U = 1 MaxDepth = 1
SPECIFICATION Spec
INVARIANTS Emit
CHECK_DEADLOCK FALSE
