------------------------------- MODULE Lexis -------------------------------
(***************************************************************************)
(* Alphabets shared by the text-level specifications.                      *)
(* TokenKinds: the lexer kinds of glas' SyntaxKind (crates/syntax/src/     *)
(* kind.rs), trivia first.  The harness checks at start-up that this list  *)
(* is exactly the set of token kinds the real lexer can produce.           *)
(***************************************************************************)
Trivia   == {"WHITESPACE", "COMMENT", "COMMENT_STATEMENT", "COMMENT_MODULE"}
Idents   == {"IDENT", "BAD_IDENT", "DISCARD_IDENT", "U_IDENT", "BAD_U_IDENT"}
Literals == {"FLOAT", "INTEGER", "STRING"}
Openers  == {"L_SQUARE", "L_BRACE", "L_PAREN", "LT_LT", "HASH"}
Closers  == {"R_SQUARE", "R_BRACE", "R_PAREN", "GT_GT"}
Operators == {"PLUS", "MINUS", "STAR", "SLASH", "LESS", "GREATER", "LESS_EQ", "GREATER_EQ",
              "PLUS_DOT", "MINUS_DOT", "STAR_DOT", "SLASH_DOT", "PERCENT", "LESS_DOT", "GREATER_DOT",
              "LESS_EQ_DOT", "GREATER_EQ_DOT", "LT_GT", "EQ_EQ", "NOT_EQ", "VBAR_VBAR", "AMPER_AMPER",
              "VBAR_GT", "BANG"}
Punct    == {"COLON", "AT", "COMMA", "EQ", "VBAR", "DOT", "R_ARROW", "L_ARROW", "DOT_DOT"}
Keywords == {"AS_KW", "ASSERT_KW", "CASE_KW", "CONST_KW", "EXTERNAL_KW", "FN_KW", "IF_KW", "IMPORT_KW",
             "LET_KW", "OPAQUE_KW", "PANIC_KW", "PUB_KW", "TODO_KW", "TYPE_KW", "USE_KW"}
TokenKinds == Trivia \cup Idents \cup Literals \cup Openers \cup Closers \cup Operators \cup Punct
              \cup Keywords \cup {"ERROR"}

\* One representative per parser-relevant class: every keyword, delimiter and punctuation
\* individually, one operator per binding power, one of each identifier/literal class.
Rep == {"WHITESPACE", "COMMENT_STATEMENT", "IDENT", "DISCARD_IDENT", "U_IDENT", "INTEGER", "STRING"}
       \cup Openers \cup Closers \cup Punct \cup Keywords
       \cup {"VBAR_VBAR", "AMPER_AMPER", "EQ_EQ", "LESS", "LT_GT", "VBAR_GT", "MINUS", "STAR", "BANG", "ERROR"}

\* Character alphabet for text-level enumeration (the harness maps names to characters)
Chars == {"a", "A", "_", "0", ".", "dq", "bs", "/", "sp", "nl", "cr", "+", "-", "<", ">", "=", "|",
          "{", "}", "(", ")", "[", "]", "#", "@", ":", ",", "!", "c2", "c4",
          \* a 3-byte character, and characters an editor or a file may carry invisibly: tab, byte order mark,
          \* no-break space, line separator
          "c3", "tab", "bom", "nbsp", "ls"}
=============================================================================
