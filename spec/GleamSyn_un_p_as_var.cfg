CONSTANTS Budget = 6 Sim = TRUE Start = "FILE"
  Masked = {"todo_operand", "p_neg", "none_p_as_var"}
SPECIFICATION Spec
INVARIANTS Balanced
CHECK_DEADLOCK FALSE
