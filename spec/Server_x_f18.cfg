\* EXPECTED VIOLATION (F18): more requests than permits, async-lsp 0.0.5 admission
CONSTANTS
 Docs = {"d1"}
 Mode = "conc"
 MaxEdits = 2
 MaxReqs = 2
 MaxInFlight = 1
 ReqKinds = {"plain", "conv"}
 QueryOutcomes = {"ok"}
 ReadWithLiveVfs = FALSE
 ConvertWithLiveVfs = FALSE
 CancelledDiagPublishesEmpty = FALSE
 RespawnAllDiags = TRUE
 PublishOnlyLatest = TRUE
 HoldVfsAcrossApply = FALSE
 SnapshotInTask = FALSE
 CancelledAnsweredOk = FALSE
 AnsFree = FALSE
 PollWhileWaiting = FALSE
 PreFixF9 = FALSE
 PreFixWDel = FALSE
 ThirdPartyFatal = FALSE
 Gen = "none"
 ScriptLen = 0
SPECIFICATION Spec
INVARIANTS NoDeadlock
CHECK_DEADLOCK FALSE
