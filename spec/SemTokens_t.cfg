CONSTANTS MaxLen = 5 EmitAll = FALSE MaxHl = 3
SPECIFICATION SpecS
INVARIANTS RoundTrip WellFormed EmitS
CHECK_DEADLOCK FALSE
