\* C12 MC: 2 readers x 2 changes x 2 files, 2 queries per snapshot; exhaustive, no state constraint; liveness on
CONSTANTS
  Readers = {1, 2}
  Files = {1, 2}
  K = 2
  MaxQ = 2
  ExclusiveHost = TRUE
  ChecksFlag = TRUE
  SyntheticWrite = TRUE
SPECIFICATION Spec
INVARIANTS TypeOK Isolation NoTornRead Frozen CancelledOnlyIfPending VersionsDistinct
PROPERTIES Prompt SnapshotSeesCommitted
CHECK_DEADLOCK TRUE
