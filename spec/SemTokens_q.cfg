CONSTANTS MaxLen = 4 EmitAll = FALSE MaxHl = 2
SPECIFICATION SpecS
INVARIANTS RoundTrip WellFormed EmitS
CHECK_DEADLOCK FALSE
