CONSTANTS Mode = "history" MaxSteps = 8
SPECIFICATION Spec
INVARIANTS WellFormed
CHECK_DEADLOCK FALSE
