CONSTANTS MaxLen = 3 MaxIns = 1 MaxChanges = 2 TrackHist = FALSE HistLen = 0
SPECIFICATION Spec
INVARIANTS InSync PositionsPreserved AtMostOneBoundary
CHECK_DEADLOCK FALSE
