------------------------------ MODULE GleamGen ------------------------------
(***************************************************************************)
(* Reference semantics of Gleam's scoping rules for the supported core,    *)
(* written as a pushdown generator: a behaviour of this specification is   *)
(* the left-to-right derivation of one program (module "m1" of package     *)
(* `app`, which may import the fixed library modules "m2" and "sub/m2" of  *)
(* the package `lib` it depends on), and the state carries exactly what    *)
(* Gleam's scoping rule needs - a stack of binding frames.                 *)
(*                                                                         *)
(*   todo    stack of grammar symbols still to be expanded / emitted       *)
(*   out     the tokens emitted so far; every identifier token carries     *)
(*           its role (def / ref / ...), the declaration it denotes by     *)
(*           construction (tg; 0 = unbound) and, for references, the set   *)
(*           of value names visible at that point (vis)                    *)
(*   frames  the scope stack: block marks and binding frames               *)
(*   pending binders of the pattern being emitted (a `let`/`use` binder    *)
(*           is NOT in scope in its own initialiser: COMMIT comes after)   *)
(*   budget  how many non-default productions may still be used            *)
(*                                                                         *)
(* Declaration ids: a local binder is identified by the index of its       *)
(* token in `out`; top-level item i of m1 by ItemBase + i; the library's   *)
(* exports by the constants below.                                         *)
(*                                                                         *)
(* Scoping rules encoded (Gleam language tour / compiler behaviour):       *)
(*  - innermost binder wins; top-level items are visible in the whole      *)
(*    module independent of order; locals shadow top-level names           *)
(*  - `let p = e`: e is outside p's scope; p is visible in the rest of     *)
(*    the block; `use p <- e`: likewise                                    *)
(*  - function and lambda parameters are visible in the body only          *)
(*  - case-clause patterns bind in the clause's guard and body only        *)
(*  - blocks delimit scopes                                                *)
(*  - `import m2` / `import sub/m2` give a module accessor named like the  *)
(*    LAST segment of the path, `import sub/m2 as q` the accessor q ONLY;  *)
(*    a module header has up to two imports (of different modules, under   *)
(*    different accessors: two plain imports of m2 and sub/m2 would both   *)
(*    claim `m2`, which Gleam rejects); `acc.x` denotes the declaration x  *)
(*    of the module acc stands for                                         *)
(*  - `import m.{c}` / `import m.{c as d}` bind an unqualified name to a   *)
(*    PUBLIC declaration of m; private declarations are not reachable      *)
(***************************************************************************)
EXTENDS Naturals, Sequences, FiniteSets, TLC, Json

CONSTANTS Budget,        \* non-default productions per program
          MaxItems,      \* top-level items of m1 (besides the imports)
          Masked,        \* productions switched off (triggers of recorded findings etc.)
          Headers,       \* which module headers (import forms) are derived: "plain" | "base" | "bfs" | "pairs" | "all"
          Sim            \* TRUE: simulation mode (random draws, Finish prints the program)

Names     == {"a", "b"}                 \* value names: locals, parameters, functions, constants
SpareNames == {"e1", "e2", "e3", "e4", "e5", "e6", "e7", "e8"}   \* only for patterns with more binders than Names
ItemBase  == 1000
\* The fixed library modules m2 and sub/m2 (texts in the harness, ids here).  Their paths share the LAST segment, and both
\* declare the same names - so an accessor, not a spelling, decides which declaration `acc.c` denotes:
\*   pub fn a, pub fn c, pub type A { A(a: Int) C }, pub const k, pub type T { W }   and the private fn p, type P { Q };
\* sub/m2 additionally has a public function s.
LibMods   == {"m2", "sub/m2"}
LibBase(m) == IF m = "m2" THEN 2000 ELSE 3000          \* the module itself (target of an accessor)
LibOff    == [a |-> 1, c |-> 2, A |-> 3, C |-> 4, k |-> 5, R |-> 9, mk |-> 12, N |-> 13]   \* public values (A, C, R: constructors; mk: sub/m2 only)
OffTypeT  == 6                          \* `pub type T { W }`: same spelling as m1's own type
OffTypeA  == 7                          \* `pub type A { A(a: Int) C }`: the type A (the constructor A is LibOff.A)
OffFieldA == 8                          \* ... and its labelled field a
\* `pub type R { R(f: Int) }` (both modules): a record with a field every variant has, so `value.f` is legal.
\* sub/m2 imports m2 and has `pub fn mk() -> m2.R { m2.R(f: 1) }`: a module that imports ONLY sub/m2 can hold a value
\* whose type - and whose field f - is declared in a module it does not import (`acc.mk().f`).
\* `type N { M }` (private) and `pub type M { N }`: the name N is a PRIVATE type and a PUBLIC constructor (of the type M), the name
\* M a public type and a private constructor - visibility belongs to a declaration, not to a name.  `import m.{N}` brings in
\* the constructor N; the constructor M is no member of the module.
OffTypeR  == 10
OffFieldF == 11
LibVal(m, n) == LibBase(m) + LibOff[n]
LibPrivate == {"p", "Q"}                 \* private function p; constructor Q of the private type P
\* what `acc.` offers: the public functions and constructors of the module
LibMembers(m) == {"a", "c", "A", "C", "W", "R", "N"} \cup (IF m = "sub/m2" THEN {"s", "mk"} ELSE {})

\* One import:  import <m> [.{ item }] [as <as>]
\*   u = "unq"       .{c}             the function c
\*       "unqalias"  .{c as d}        ... under the name d (c itself is then NOT in scope)
\*       "unqctor"   .{A}             the CONSTRUCTOR A comes into the value namespace, not the type A
\*       "unqtype"   .{type A}        the TYPE only
\*       "typealias" .{type T as L}   the type T of the library under the name L (m1's own type T, if declared, is a
\*                                    different declaration with the original spelling)
\*       "unqctoralias" .{A as E}  the constructor A under the name E (A itself is then NOT in scope)
\*       "unqctorn"  .{N}             the public constructor N (its spelling is also that of a private type)
UnqKinds == {"none", "unq", "unqalias", "unqctor", "unqctoralias", "unqctorn", "unqtype", "typealias"}
Imp(m, as, u) == [m |-> m, as |-> as, u |-> u]
\* the accessor an import brings into scope: the alias if there is one, else the last path segment - `m2` for both modules
AccOf(i) == IF i.as # "" THEN i.as ELSE "m2"
\* the first import's alias is q, the second one's r
ImportsAt(k) == {Imp(m, as, u) : m \in LibMods, as \in {"", IF k = 1 THEN "q" ELSE "r"}, u \in UnqKinds}
\* what Gleam accepts: different modules under different accessors, no unqualified name (per namespace) bound twice -
\* any two different item kinds bind different (namespace, name) pairs
Sensible(h) == Len(h) = 2 => /\ h[1].m # h[2].m
                             /\ AccOf(h[1]) # AccOf(h[2])
                             /\ (h[1].u = "none" \/ h[2].u = "none" \/ h[1].u # h[2].u)
AllHeaders == {h \in {<<>>} \cup {<<i>> : i \in ImportsAt(1)} \cup {<<i, j>> : i \in ImportsAt(1), j \in ImportsAt(2)} : Sensible(h)}
\* "plain": `import m2`;
\* "base":  no import, m2 plain / aliased / with an unqualified function / constructor, the nested path plain (EVERY production
\*          is derived under these; a production that mentions no imported name or accessor means the same under every header);
\* "bfs":   every header with at most one unqualified item (the import-sensitive productions are derived under these);
\* "pairs": the two-import headers without unqualified items: both modules, {plain, as} for each, both orders;
\* "all":   every sensible header (simulation)
HeaderSet == CASE Headers = "plain" -> {<<Imp("m2", "", "none")>>}
               [] Headers = "base"  -> {<<>>, <<Imp("m2", "q", "none")>>, <<Imp("sub/m2", "", "none")>>} \cup {<<Imp("m2", "", u)>> : u \in {"none", "unq", "unqctor"}}
               [] Headers = "bfs"   -> {h \in AllHeaders : Len(h) = 2 => (h[1].u = "none" \/ h[2].u = "none")}
               [] Headers = "pairs" -> {h \in AllHeaders : Len(h) = 2 /\ h[1].u = "none" /\ h[2].u = "none"}
               [] OTHER             -> AllHeaders
\* m1 may declare one record type  `type T { T ( a : Int , b : Int ) V ( a : Int , b : Int ) }`: the type T and the
\* constructor T share a spelling but live in different namespaces; the fields are spelled like the value names and
\* are common to both variants (Gleam allows `.a` only for such fields): a common field is ONE declaration, declared
\* by the first variant; the second variant's field names refer to it.
\* ids: type = ItemBase + i, constructor T = +100, constructor V = +200, field a = +300, field b = +400
\* The second constructor is spelled V or - state variable v2 - `Ok`, like a constructor of Gleam's prelude: a module may
\* declare such a constructor, and its own declaration shadows the prelude's in the whole module.
\* State variable v3: the type has a THIRD variant `Z ( a : Int )`.  Then b is no longer common to all variants: the b of
\* the first and the b of the second variant are two declarations (FieldB, FieldB2) that merely share a spelling - a label
\* `b:` denotes the field of the constructor it is written under - while a stays one declaration.
CtorT == 100  CtorU == 200  FieldA == 300  FieldB == 400  FieldB2 == 500  CtorZ == 600

VARIABLES todo, out, frames, pending, budget, imps, items, v2, v3, phase
vars == <<todo, out, frames, pending, budget, imps, items, v2, v3, phase>>

\* grammar symbols: s = symbol, x = string argument, n = integer argument
Sym(s, x, n) == [s |-> s, x |-> x, n |-> n]
T(x)    == Sym("T", x, 0)               \* keyword / punctuation
NT(s)   == Sym(s, "", 0)
OPEN(k) == Sym("OPEN", k, 0)
CLOSE   == Sym("CLOSE", "", 0)

Allowed(p) == p \notin Masked

-----------------------------------------------------------------------------
(* scope stack *)
Mark      == [m |-> TRUE, b |-> {}]
Frame(bs) == [m |-> FALSE, b |-> bs]

\* innermost binding of name in the frames, 0 if none
Local(name) ==
    LET idx == {i \in 1..Len(frames) : \E e \in frames[i].b : e[1] = name}
    IN IF idx = {} THEN 0
       ELSE LET i == CHOOSE i \in idx : \A j \in idx : j <= i
            IN (CHOOSE e \in frames[i].b : e[1] = name)[2]

\* module-level value scope of m1
ItemId(name) ==
    LET idx == {i \in 1..Len(items) : items[i].n = name /\ items[i].k \in {"fn", "const"}}
    IN IF idx = {} THEN 0 ELSE ItemBase + (CHOOSE i \in idx : TRUE)
\* the import (index) that carries an unqualified item of the given kind, 0 if none (Sensible: at most one)
UnqAt(kind) == LET ks == {k \in 1..Len(imps) : imps[k].u = kind} IN IF ks = {} THEN 0 ELSE CHOOSE k \in ks : TRUE
UnqMod(kind) == imps[UnqAt(kind)].m
Imported(name) ==
    IF name = "c" /\ UnqAt("unq") # 0 THEN LibVal(UnqMod("unq"), "c")
    ELSE IF name = "d" /\ UnqAt("unqalias") # 0 THEN LibVal(UnqMod("unqalias"), "c")
    ELSE IF name = "A" /\ UnqAt("unqctor") # 0 THEN LibVal(UnqMod("unqctor"), "A")
    ELSE IF name = "E" /\ UnqAt("unqctoralias") # 0 THEN LibVal(UnqMod("unqctoralias"), "A")
    ELSE IF name = "N" /\ UnqAt("unqctorn") # 0 THEN LibVal(UnqMod("unqctorn"), "N")
    ELSE 0
TypeItem == LET idx == {i \in 1..Len(items) : items[i].k = "type"} IN IF idx = {} THEN 0 ELSE CHOOSE i \in idx : TRUE
HasType  == TypeItem # 0
TypeBase == ItemBase + TypeItem
\* the type namespace of m1: its own T, and what the import brings in
TypeResolve(name) == IF name = "T" /\ HasType THEN TypeBase
                     ELSE IF name = "A" /\ UnqAt("unqtype") # 0 THEN LibBase(UnqMod("unqtype")) + OffTypeA
                     ELSE IF name = "L" /\ UnqAt("typealias") # 0 THEN LibBase(UnqMod("typealias")) + OffTypeT
                     ELSE 0
\* constructors are values of the module scope; the type itself is in the type namespace only
CtorName(x) == IF x = "2" THEN v2 ELSE x      \* grammar symbols call the second constructor "2"
CtorId(name) == IF ~HasType THEN 0 ELSE IF name = "T" THEN TypeBase + CtorT ELSE IF name = v2 THEN TypeBase + CtorU
                ELSE IF name = "Z" /\ v3 THEN TypeBase + CtorZ ELSE 0
ModuleValue(name) == IF ItemId(name) # 0 THEN ItemId(name) ELSE IF CtorId(name) # 0 THEN CtorId(name) ELSE Imported(name)

Resolve(name) == IF Local(name) # 0 THEN Local(name) ELSE ModuleValue(name)

\* `c` is written whether or not it is imported (unbound otherwise); `d` only when some import declares it
RefNames == Names \cup {"c"} \cup (IF UnqAt("unqalias") # 0 THEN {"d"} ELSE {}) \cup (IF UnqAt("unqctoralias") # 0 THEN {"E"} ELSE {}) \cup (IF UnqAt("unqctorn") # 0 THEN {"N"} ELSE {})
\* (a local may be spelled like a module accessor - q, r, m2 - see shadow_acc_*: then it is a visible value name)
Visible  == {n \in Names \cup SpareNames \cup {"c", "d", "T", "V", "Ok", "Z", "A", "E", "N", "q", "r", "m2"} : Resolve(n) # 0}
\* module accessors in scope for `name.`: every import brings its module in under the last segment of its path, `as q`
\* under the alias ONLY; AccMod: the module an accessor stands for
Accessors == {AccOf(imps[k]) : k \in 1..Len(imps)}
AccMod(acc) == imps[CHOOSE k \in 1..Len(imps) : AccOf(imps[k]) = acc].m
VisibleModules == Accessors
HeaderLabel ==
    LET UL(u) == CASE u = "none" -> "" [] u = "unq" -> ".{c}" [] u = "unqalias" -> ".{c as d}" [] u = "unqctor" -> ".{A}"
                   [] u = "unqctoralias" -> ".{A as E}" [] u = "unqctorn" -> ".{N}" [] u = "unqtype" -> ".{type A}" [] u = "typealias" -> ".{type T as L}"
        IL(i) == i.m \o UL(i.u) \o (IF i.as # "" THEN " as " \o i.as ELSE "")
    IN IF Len(imps) = 0 THEN "none" ELSE IF Len(imps) = 1 THEN IL(imps[1]) ELSE IL(imps[1]) \o " + " \o IL(imps[2])

\* pop frames down to and including the innermost mark
RECURSIVE PopToMark(_)
PopToMark(fs) == IF fs = <<>> THEN <<>>
                 ELSE IF fs[Len(fs)].m THEN SubSeq(fs, 1, Len(fs) - 1)
                 ELSE PopToMark(SubSeq(fs, 1, Len(fs) - 1))

-----------------------------------------------------------------------------
(* productions: set of [c |-> cost, p |-> name, r |-> right-hand side] *)
P(c, p, r) == [c |-> c, p |-> p, r |-> r]

BlockBody == <<T("{"), NT("MARK"), NT("STMTS"), NT("POPMARK"), T("}")>>

Prods(h) ==
  CASE h.s = "STMTS" ->
         { P(0, "last_expr", <<OPEN("STMT_EXPR"), NT("EXPR"), CLOSE>>),
           P(1, "stmt_seq", <<NT("STMT"), NT("STMTS")>>) }
    [] h.s = "STMT" ->
         { P(0, "let", <<OPEN("STMT_LET"), T("let"), NT("PATSTART"), NT("PAT"), T("="), NT("EXPR"), NT("COMMIT"), CLOSE>>),
           P(0, "use", <<OPEN("STMT_USE"), T("use"), NT("PATSTART"), NT("BINDER"), T("<-"), NT("CALLEE"), T("("), NT("EXPR"), T(")"), NT("COMMIT"), CLOSE>>),
           P(0, "expr_stmt", <<OPEN("STMT_EXPR"), NT("CALL"), CLOSE>>) }
    [] h.s = "EXPR" ->
         { P(0, "lit", <<T("1")>>),
           P(0, "ref", <<NT("REF")>>),
           P(1, "call", <<NT("CALL")>>),
           P(1, "block", <<OPEN("BLOCK")>> \o BlockBody \o <<CLOSE>>),
           P(1, "case", <<OPEN("CASE"), T("case"), NT("EXPR"), T("{"), NT("CLAUSE"), NT("CLAUSES"), T("}"), CLOSE>>),
           P(1, "lambda", <<OPEN("LAMBDA"), T("fn"), T("("), NT("MARK"), NT("PATSTART"), NT("BINDER"), NT("COMMIT"), T(")")>>
                          \o <<T("{"), NT("STMTS"), T("}"), NT("POPMARK"), CLOSE>>),
           P(1, "binop", <<OPEN("BINARY_OP"), NT("EXPR0"), T("+"), NT("EXPR0"), CLOSE>>),
           P(1, "pipe", <<OPEN("PIPE"), NT("EXPR0"), T("|>"), NT("CALLEE"), CLOSE>>),
           P(1, "unary", <<OPEN("UNARY_OP"), T("!"), NT("EXPR0"), CLOSE>>),
           P(1, "list", <<OPEN("LIST"), T("["), NT("EXPR"), T(","), NT("EXPR"), T("]"), CLOSE>>),
           P(1, "tuple", <<OPEN("TUPLE"), T("#"), T("("), NT("EXPR"), T(","), NT("EXPR"), T(")"), CLOSE>>),
           P(1, "qualified", <<NT("QUALIFIED")>>),
           P(1, "ctor", <<NT("CTOR")>>),
           P(1, "ctor_labelled", <<NT("NEEDACC"), OPEN("EXPR_CALL"), OPEN("FIELD_ACCESS"), NT("QCTORA"), CLOSE, T("("), Sym("LIBLABEL", "a", 0), T(":"), NT("EXPR"), T(")"), CLOSE>>),
           P(1, "ctor_unq", <<OPEN("EXPR_CALL"), NT("UNQCTORA"), T("("), T("1"), T(")"), CLOSE>>),
           P(1, "ctor_unq_labelled", <<OPEN("EXPR_CALL"), NT("UNQCTORA"), T("("), Sym("UNQLIBLABEL", "a", 0), T(":"), NT("EXPR"), T(")"), CLOSE>>),
           \* the module's own record type (only when it is declared)
           P(1, "own_ctor_labelled", <<NT("NEEDTYPE"), OPEN("EXPR_CALL"), Sym("OWNCTOR", "T", 0), T("("), Sym("LABEL", "b", 0), T(":"), NT("EXPR"), T(","),
                                      Sym("LABEL", "a", 0), T(":"), NT("EXPR"), T(")"), CLOSE>>),
           P(1, "own_ctor2_labelled", <<NT("NEEDTYPE"), OPEN("EXPR_CALL"), Sym("OWNCTOR", "2", 0), T("("), Sym("LABEL2", "a", 0), T(":"), NT("EXPR"), T(","),
                                       Sym("LABEL2", "b", 0), T(":"), NT("EXPR"), T(")"), CLOSE>>),
           \* a field of a record whose type is declared in a module this one need not import: sub/m2's mk() returns m2's R
           P(1, "indirect_field", <<NT("NEEDSUB"), OPEN("FIELD_ACCESS"), OPEN("EXPR_CALL"), OPEN("FIELD_ACCESS"), NT("SUBMK"), CLOSE, T("("), T(")"), CLOSE,
                                    T("."), Sym("LIBFIELD", "f", 0), CLOSE>>),
           \* ... and afterwards, in the same block, a qualified name: reading a field whose declared type is an ALIAS of the
           \* declaring module (m2: `pub type I = Int`, `R(f: I)`) must leave no trace in how the next qualifier is resolved
           P(1, "field_then_qualified", <<NT("NEEDSUB"), OPEN("BLOCK"), T("{"), OPEN("STMT_EXPR"),
                                          OPEN("FIELD_ACCESS"), OPEN("EXPR_CALL"), OPEN("FIELD_ACCESS"), NT("SUBMK"), CLOSE, T("("), T(")"), CLOSE,
                                          T("."), Sym("LIBFIELD", "f", 0), CLOSE, CLOSE,
                                          OPEN("STMT_EXPR"), NT("QUALIFIED"), CLOSE, T("}"), CLOSE>>),
           \* a local spelled like a module accessor in scope.  Gleam reads `x.l` as a record access when x is a value with
           \* a field l, and as a module access otherwise: a record-typed local q shadows the accessor q in `q.a` ...
           P(1, "shadow_acc_field", <<NT("NEEDTYPE"), NT("NEEDACC"), OPEN("BLOCK"), T("{"), NT("MARK"), OPEN("STMT_LET"), T("let"), NT("PATSTART"), NT("ACCBINDER"), T("="),
                                      OPEN("EXPR_CALL"), Sym("OWNCTOR", "T", 0), T("("), T("1"), T(","), T("1"), T(")"), CLOSE, NT("COMMIT"), CLOSE,
                                      OPEN("STMT_EXPR"), OPEN("FIELD_ACCESS"), NT("ACCLOCALREF"), T("."), Sym("FIELDREF", "a", 0), CLOSE, CLOSE, NT("POPMARK"), T("}"), CLOSE>>),
           \* ... while `q.c` with an Int-typed local q still denotes the module's c
           P(1, "shadow_acc_mod", <<NT("NEEDACC"), OPEN("BLOCK"), T("{"), NT("MARK"), OPEN("STMT_LET"), T("let"), NT("PATSTART"), NT("ACCBINDER"), T("="), T("1"), NT("COMMIT"), CLOSE,
                                    OPEN("STMT_EXPR"), OPEN("EXPR_CALL"), OPEN("FIELD_ACCESS"), NT("ACCMODREF"), CLOSE, T("("), T(")"), CLOSE, CLOSE, NT("POPMARK"), T("}"), CLOSE>>),
           \* a field access on a value whose type nothing pins down (the parameter of a lambda whose value is discarded, so it is
           \* never applied): the label denotes no declaration - in particular not the local / function / constant that happens to
           \* be spelled like it
           P(1, "unknown_field", <<OPEN("BLOCK"), T("{"), OPEN("STMT_EXPR"),
                                   OPEN("LAMBDA"), T("fn"), T("("), NT("MARK"), NT("PATSTART"), NT("SPAREBINDER"), NT("COMMIT"), T(")"), T("{"),
                                   OPEN("STMT_EXPR"), OPEN("FIELD_ACCESS"), NT("ACCLOCALREF"), T("."), NT("UNKFIELD"), CLOSE, CLOSE, T("}"), NT("POPMARK"), CLOSE,
                                   CLOSE, OPEN("STMT_EXPR"), T("1"), CLOSE, T("}"), CLOSE>>),
           \* a clause that binds nothing, directly followed by one that binds: the second clause's variables are not in scope
           \* in the first one's body
           P(1, "case_nobind_bind", <<OPEN("CASE"), T("case"), NT("EXPR0"), T("{"),
                                      OPEN("CLAUSE"), NT("MARK"), T("1"), T("->"), NT("REF"), NT("POPMARK"), CLOSE,
                                      OPEN("CLAUSE"), NT("MARK"), NT("PATSTART"), NT("BINDER"), NT("COMMIT"), T("->"), T("1"), NT("POPMARK"), CLOSE,
                                      T("}"), CLOSE>>),
           P(1, "own_field", <<NT("NEEDTYPE"), OPEN("FIELD_ACCESS"), OPEN("EXPR_CALL"), Sym("OWNCTOR", "T", 0), T("("), T("1"), T(","), NT("EXPR"), T(")"), CLOSE,
                               T("."), Sym("FIELDREF", "a", 0), CLOSE>>) }
    [] h.s = "EXPR0" ->            \* operand position: atoms only
         { P(0, "lit", <<T("1")>>), P(0, "ref", <<NT("REF")>>), P(1, "call", <<NT("CALL")>>) }
    [] h.s = "CALL" ->
         { P(0, "call1", <<OPEN("EXPR_CALL"), NT("CALLEE"), T("("), NT("EXPR"), T(")"), CLOSE>>) }
    [] h.s = "CLAUSES" ->
         { P(0, "one_clause", <<>>), P(1, "two_clauses", <<NT("CLAUSE")>>) }
    [] h.s = "CLAUSE" ->
         { P(0, "clause", <<OPEN("CLAUSE"), NT("MARK"), NT("PATSTART"), NT("PAT"), NT("COMMIT"), T("->"), NT("EXPR"), NT("POPMARK"), CLOSE>>),
           P(1, "clause_guard", <<OPEN("CLAUSE"), NT("MARK"), NT("PATSTART"), NT("PAT"), NT("COMMIT"), OPEN("PATTERN_GUARD"), T("if"), NT("REF"), T("=="), T("1"), CLOSE,
                                  T("->"), NT("EXPR"), NT("POPMARK"), CLOSE>>),
           P(1, "clause_alt", <<OPEN("CLAUSE"), NT("MARK"), NT("PATSTART"), NT("BINDER"), NT("COMMIT"), T("|"), NT("ALTPAT"), T("->"), NT("EXPR"), NT("POPMARK"), CLOSE>>) }
    [] h.s = "PAT" ->
         { P(0, "pvar", <<NT("BINDER")>>),
           P(0, "pat", <<NT("PATN")>>),
           P(1, "pas", <<NT("PATN"), T("as"), NT("BINDER")>>),
           P(1, "pas_var", <<NT("BINDER"), T("as"), NT("BINDER")>>) }
    [] h.s = "PATN" ->
         {
           P(0, "pdiscard", <<T("_")>>),
           P(1, "plit", <<T("1")>>),
           P(1, "ptuple", <<T("#"), T("("), NT("PAT"), T(","), NT("PAT"), T(")")>>),
           P(1, "plist", <<T("["), NT("PAT"), T(","), T(".."), NT("SPREADBINDER"), T("]")>>),
           P(1, "pctor", <<NT("PCTOR"), T("("), NT("PAT"), T(")")>>),
           P(1, "pctor_labelled", <<NT("NEEDACC"), NT("PQCTORA"), T("("), Sym("LIBLABEL", "a", 1), T(":"), NT("PAT"), T(")")>>),
           P(1, "pconcat", <<T("\"s\""), T("<>"), NT("BINDER")>>),
           P(1, "p_own_ctor", <<NT("NEEDTYPE"), Sym("OWNCTOR", "T", 1), T("("), Sym("LABEL", "a", 1), T(":"), NT("PAT"), T(","), T(".."), T(")")>>),
           P(1, "p_own_ctor2", <<NT("NEEDTYPE"), Sym("OWNCTOR", "2", 1), T("("), Sym("LABEL2", "b", 1), T(":"), NT("PAT"), T(","), T(".."), T(")")>>),
           P(1, "p_own_ctor_pos", <<NT("NEEDTYPE"), Sym("OWNCTOR", "T", 1), T("("), NT("PAT"), T(","), NT("PAT"), T(")")>>) }
    [] OTHER -> {}

-----------------------------------------------------------------------------
Emit(tok) == out' = Append(out, tok)
Tok(t, r, tg, vis) == [t |-> t, r |-> r, tg |-> tg, vis |-> vis]
Plain(t) == Tok(t, "kw", 0, {})

Init == /\ todo = <<>> /\ out = <<>> /\ frames = <<>> /\ pending = <<>> /\ budget = Budget
        /\ imps = <<>> /\ items = <<>> /\ v2 = "V" /\ v3 = FALSE /\ phase = "header"

Pick(S) == IF Sim /\ S # {} THEN {RandomElement(S)} ELSE S

\* module header: choose the import form and the top-level items (kinds and distinct names) up front
ItemLists == UNION {[1..k -> [k : {"fn", "const"}, n : Names] \cup {[k |-> "type", n |-> "T"], [k |-> "alias", n |-> "B"]}] : k \in 1..MaxItems}
DistinctNames(l) == /\ \A i, j \in 1..Len(l) : i # j => l[i].n # l[j].n
                    /\ "type" \notin Masked \/ \A i \in 1..Len(l) : l[i].k # "type"
                    /\ "item_b" \notin Masked \/ \A i \in 1..Len(l) : l[i].n # "b"
                    \* an alias `type B = T` needs the type, and comes last (its `T` is then the last token of the file)
                    /\ \A i \in 1..Len(l) : l[i].k = "alias" => (i = Len(l) /\ \E j \in 1..Len(l) : l[j].k = "type")
\* tokens of one import
ImportToks(i) ==
    LET base == LibBase(i.m)
        V(n) == LibVal(i.m, n)
    IN <<Plain("import")>>
       \o (IF i.m = "m2" THEN <<Tok("m2", "modpath", base, {})>>
           ELSE <<Tok("sub", "modpath", base, {}), Plain("/"), Tok("m2", "modpath", base, {})>>)
       \o (CASE i.u = "none" -> <<>>
             [] i.u = "unq" -> <<Plain("."), Plain("{"), Tok("c", "impname", V("c"), {}), Plain("}")>>
             [] i.u = "unqalias" -> <<Plain("."), Plain("{"), Tok("c", "impname", V("c"), {}), Plain("as"),
                                      Tok("d", "impalias", V("c"), {}), Plain("}")>>
             [] i.u = "unqctor" -> <<Plain("."), Plain("{"), Tok("A", "impname", V("A"), {}), Plain("}")>>
             [] i.u = "unqctoralias" -> <<Plain("."), Plain("{"), Tok("A", "impname", V("A"), {}), Plain("as"),
                                          Tok("E", "impalias", V("A"), {}), Plain("}")>>
             [] i.u = "unqctorn" -> <<Plain("."), Plain("{"), Tok("N", "impname", V("N"), {}), Plain("}")>>
             [] i.u = "unqtype" -> <<Plain("."), Plain("{"), Plain("type"), Tok("A", "impname", base + OffTypeA, {}), Plain("}")>>
             [] i.u = "typealias" -> <<Plain("."), Plain("{"), Plain("type"), Tok("T", "impname", base + OffTypeT, {}), Plain("as"),
                                       Tok("L", "impalias", base + OffTypeT, {}), Plain("}")>>)
       \o (IF i.as = "" THEN <<>> ELSE <<Plain("as"), Tok(i.as, "moddef", base, {})>>)
HeaderAllowed(h) == \A k \in 1..Len(h) : h[k].u \notin Masked
Header == /\ phase = "header"
          /\ \E f \in Pick({h \in HeaderSet : HeaderAllowed(h)}), l \in Pick({l \in ItemLists : DistinctNames(l) /\ l[1].k = "fn"}) :
               /\ imps' = f /\ items' = l
               \* the spelling of the second constructor of the module's own type (if there is one)
               /\ \E v \in Pick(IF \E i \in 1..Len(l) : l[i].k = "type" THEN {"V", "Ok"} \ Masked ELSE {"V"}) : v2' = v
               /\ \E w \in Pick(IF (\E i \in 1..Len(l) : l[i].k = "type") /\ Allowed("variant3") THEN {FALSE, TRUE} ELSE {FALSE}) : v3' = w
               /\ todo' = [i \in 1..Len(l) |-> Sym("ITEM", l[i].k, i)]
               /\ out' = IF Len(f) = 0 THEN <<>> ELSE IF Len(f) = 1 THEN ImportToks(f[1]) ELSE ImportToks(f[1]) \o ImportToks(f[2])
               /\ phase' = "body"
          /\ UNCHANGED <<frames, pending, budget>>

Hd == todo[1]
Rest == Tail(todo)

\* target of the last qualified name emitted
LastQref == LET is == {i \in 1..Len(out) : out[i].r = "qref"} IN out[CHOOSE i \in is : \A j \in is : j <= i].tg

\* one derivation step
Step ==
  /\ phase = "body" /\ todo # <<>>
  /\ LET h == Hd IN
     CASE h.s = "T" -> /\ Emit(Plain(h.x)) /\ todo' = Rest /\ UNCHANGED <<frames, pending, budget>>
       [] h.s \in {"OPEN", "CLOSE"} ->
            /\ Emit(Tok(h.x, IF h.s = "OPEN" THEN "open" ELSE "close", 0, {}))
            /\ todo' = Rest /\ UNCHANGED <<frames, pending, budget>>
       [] h.s = "ITEM" ->
            /\ todo' = (IF h.x = "fn"
                        THEN <<OPEN("FUNCTION"), T("fn"), Sym("ITEMNAME", items[h.n].n, h.n), T("("), NT("MARK"), NT("PATSTART"), NT("PARAMS"),
                               NT("COMMIT"), T(")"), T("{"), NT("STMTS"), T("}"), NT("POPMARK"), CLOSE>>
                        ELSE IF h.x = "type"
                        THEN <<OPEN("ADT"), T("type"), Sym("ITEMNAME", "T", h.n), T("{"),
                               Sym("DECL", "T", CtorT), T("("), Sym("DECL", "a", FieldA), T(":"), T("Int"), T(","), Sym("DECL", "b", FieldB), T(":"), T("Int"), T(")"),
                               Sym("DECL", "2", CtorU), T("("), Sym("FIELDALT", "a", FieldA), T(":"), T("Int"), T(","), Sym("FIELDALT", "b", FieldB), T(":"), T("Int"), T(")")>>
                               \o (IF v3 THEN <<Sym("DECL", "Z", CtorZ), T("("), Sym("FIELDALT", "a", FieldA), T(":"), T("Int"), T(")")>> ELSE <<>>)
                               \o <<T("}"), CLOSE>>
                        ELSE IF h.x = "alias"
                        THEN <<OPEN("TYPE_ALIAS"), T("type"), Sym("ITEMNAME", "B", h.n), T("="), Sym("OWNTYPEREF", "", 0), CLOSE>>
                        ELSE <<OPEN("MODULE_CONSTANT"), T("const"), Sym("ITEMNAME", items[h.n].n, h.n), T("="), T("1"), CLOSE>>) \o Rest
            /\ UNCHANGED <<out, frames, pending, budget>>
       [] h.s = "ITEMNAME" ->
            /\ Emit(Tok(h.x, "def", ItemBase + h.n, {})) /\ todo' = Rest /\ UNCHANGED <<frames, pending, budget>>
       [] h.s = "PARAMS" ->
            \E k \in Pick({k \in {0, 1, 2, 3} : Allowed(<<"params0", "params1", "params2", "params3">>[k + 1])}) :
               /\ todo' = (CASE k = 0 -> <<>> [] k = 1 -> <<NT("BINDER")>> [] k = 2 -> <<NT("BINDER"), T(","), NT("BINDER")>>
                             [] k = 3 -> <<NT("BINDER"), T(":"), NT("TYPEREF")>>) \o Rest
               /\ UNCHANGED <<out, frames, pending, budget>>
       \* symbols of the module's own record type
       [] h.s = "NEEDTYPE" -> /\ HasType /\ todo' = Rest /\ UNCHANGED <<out, frames, pending, budget>>
       [] h.s = "DECL" -> /\ Emit(Tok(CtorName(h.x), "def", TypeBase + h.n, {})) /\ todo' = Rest /\ UNCHANGED <<frames, pending, budget>>
       [] h.s = "OWNTYPEREF" -> /\ Emit(Tok("T", "tref", TypeBase, {})) /\ todo' = Rest /\ UNCHANGED <<frames, pending, budget>>
       \* a field name in a later variant: the common field's declaration is the first variant's - unless (v3) b is not common
       [] h.s = "FIELDALT" -> /\ Emit(IF v3 /\ h.x = "b" THEN Tok("b", "def", TypeBase + FieldB2, {}) ELSE Tok(h.x, "fieldalt", TypeBase + h.n, {}))
                              /\ todo' = Rest /\ UNCHANGED <<frames, pending, budget>>
       \* a type annotation: the module's own type T, or the library's type of the same name through the accessor
       [] h.s = "TYPEREF" ->
            \* an annotation: m1's own type T, an imported type (A, or m2.T under its alias L), the library's T through the
            \* accessor - or the name A / T when nothing declares it in the TYPE namespace (tg = 0: unresolved; in
            \* particular `import m2.{A}` imports the constructor only)
            \E q \in Pick({"T", "A"} \cup Accessors \cup (IF UnqAt("typealias") # 0 THEN {"L"} ELSE {})) :
               /\ out' = IF q \in Accessors
                         THEN out \o <<Tok(q, "tmodref", LibBase(AccMod(q)), {}), Plain("."), Tok("T", "qtref", LibBase(AccMod(q)) + OffTypeT, {})>>
                         ELSE Append(out, Tok(q, "tref", TypeResolve(q), {}))
               /\ todo' = Rest /\ UNCHANGED <<frames, pending, budget>>
       [] h.s = "NEEDACC" -> /\ Accessors # {} /\ todo' = Rest /\ UNCHANGED <<out, frames, pending, budget>>
       [] h.s = "NEEDSUB" -> /\ (\E acc \in Accessors : AccMod(acc) = "sub/m2") /\ todo' = Rest /\ UNCHANGED <<out, frames, pending, budget>>
       \* `acc.mk` through an accessor of sub/m2
       [] h.s = "SUBMK" ->
            \E acc \in Pick({x \in Accessors : AccMod(x) = "sub/m2"}) :
               /\ out' = out \o <<Tok(acc, "modref", LibBase("sub/m2"), Visible), Plain("."), Tok("mk", "qref", LibVal("sub/m2", "mk"), {})>>
               /\ todo' = Rest /\ UNCHANGED <<frames, pending, budget>>
       \* the field f of m2's record R (the value came from sub/m2's mk)
       [] h.s = "LIBFIELD" -> /\ Emit(Tok(h.x, "field", LibBase("m2") + OffFieldF, {})) /\ todo' = Rest /\ UNCHANGED <<frames, pending, budget>>
       \* a let binder spelled like an accessor in scope
       [] h.s = "ACCBINDER" ->
            \E acc \in Pick(Accessors) :
               /\ Emit(Tok(acc, "def", Len(out) + 1, {}))
               /\ pending' = [pending EXCEPT ![Len(pending)] = pending[Len(pending)] \cup {<<acc, Len(out) + 1>>}]
               /\ todo' = Rest /\ UNCHANGED <<frames, budget>>
       \* the name just bound (the innermost frame is that let's), as a value ...
       [] h.s = "ACCLOCALREF" ->
            /\ \E e \in frames[Len(frames)].b : Emit(Tok(e[1], "ref", e[2], Visible))
            /\ todo' = Rest /\ UNCHANGED <<frames, pending, budget>>
       \* ... and as the module it still stands for in `name.c`
       [] h.s = "ACCMODREF" ->
            /\ \E e \in frames[Len(frames)].b :
                 out' = out \o <<Tok(e[1], "modref", LibBase(AccMod(e[1])), Visible), Plain("."), Tok("c", "qref", LibVal(AccMod(e[1]), "c"), {})>>
            /\ todo' = Rest /\ UNCHANGED <<frames, pending, budget>>
       [] h.s \in {"QCTORA", "PQCTORA"} ->
            \E acc \in Pick(Accessors) :
               /\ out' = out \o <<Tok(acc, IF h.s = "QCTORA" THEN "modref" ELSE "pmodref", LibBase(AccMod(acc)), {}), Plain("."),
                                  Tok("A", "qref", LibVal(AccMod(acc), "A"), {})>>
               /\ todo' = Rest /\ UNCHANGED <<frames, pending, budget>>
       [] h.s = "UNQCTORA" -> /\ Emit(Tok("A", "ref", Resolve("A"), Visible)) /\ todo' = Rest /\ UNCHANGED <<frames, pending, budget>>
       \* the label of `acc.A(a: ..)`: the field of the constructor just written (the last qualified name emitted)
       [] h.s = "LIBLABEL" -> /\ Emit(Tok(h.x, IF h.n = 0 THEN "label" ELSE "plabel", LastQref + (OffFieldA - LibOff.A), {})) /\ todo' = Rest /\ UNCHANGED <<frames, pending, budget>>
       \* a label of an unqualified `A(a: ..)`: denotes the field only if A is the imported constructor
       [] h.s = "UNQLIBLABEL" -> /\ Emit(Tok(h.x, "label", IF Resolve("A") >= LibBase("m2") THEN Resolve("A") + (OffFieldA - LibOff.A) ELSE 0, {})) /\ todo' = Rest /\ UNCHANGED <<frames, pending, budget>>
       \* "2": the second constructor under its spelling
       [] h.s = "OWNCTOR" -> /\ Emit(Tok(CtorName(h.x), IF h.n = 0 THEN "ref" ELSE "pref", CtorId(CtorName(h.x)), IF h.n = 0 THEN Visible ELSE {}))
                             /\ todo' = Rest /\ UNCHANGED <<frames, pending, budget>>
       [] h.s = "LABEL" -> /\ Emit(Tok(h.x, IF h.n = 0 THEN "label" ELSE "plabel", TypeBase + (IF h.x = "a" THEN FieldA ELSE FieldB), {}))
                           /\ todo' = Rest /\ UNCHANGED <<frames, pending, budget>>
       \* a label written under the second constructor
       [] h.s = "LABEL2" -> /\ Emit(Tok(h.x, IF h.n = 0 THEN "label" ELSE "plabel", TypeBase + (IF h.x = "a" THEN FieldA ELSE IF v3 THEN FieldB2 ELSE FieldB), {}))
                            /\ todo' = Rest /\ UNCHANGED <<frames, pending, budget>>
       [] h.s = "FIELDREF" -> /\ Emit(Tok(h.x, "field", TypeBase + (IF h.x = "a" THEN FieldA ELSE FieldB), {}))
                              /\ todo' = Rest /\ UNCHANGED <<frames, pending, budget>>
       [] h.s = "MARK" -> /\ frames' = Append(frames, Mark) /\ todo' = Rest /\ UNCHANGED <<out, pending, budget>>
       [] h.s = "POPMARK" -> /\ frames' = PopToMark(frames) /\ todo' = Rest /\ UNCHANGED <<out, pending, budget>>
       \* patterns nest (a let initialiser may contain a case): the binders being collected form a stack
       [] h.s = "PATSTART" -> /\ pending' = Append(pending, {}) /\ todo' = Rest /\ UNCHANGED <<out, frames, budget>>
       [] h.s = "COMMIT" -> /\ frames' = Append(frames, Frame(pending[Len(pending)]))
                            /\ pending' = SubSeq(pending, 1, Len(pending) - 1) /\ todo' = Rest
                            /\ UNCHANGED <<out, budget>>
       [] h.s \in {"BINDER", "SPREADBINDER"} ->
            \* a pattern binds each name at most once; when the pool is used up a spare name is taken
            LET top  == pending[Len(pending)]
                free == {n \in Names : \A e \in top : e[1] # n}
                pool == IF free # {} THEN free
                        ELSE {CHOOSE n \in SpareNames : \A e \in top : e[1] # n}
            IN \E n \in Pick(pool) :
               /\ Emit(Tok(n, IF h.s = "BINDER" THEN "def" ELSE "spreaddef", Len(out) + 1, {}))
               /\ pending' = [pending EXCEPT ![Len(pending)] = top \cup {<<n, Len(out) + 1>>}]
               /\ todo' = Rest /\ UNCHANGED <<frames, budget>>
       \* a binder with a name no other binding uses (its type stays unknown: nothing else mentions it)
       [] h.s = "SPAREBINDER" ->
            LET n == CHOOSE x \in SpareNames : Resolve(x) = 0 /\ \A k \in 1..Len(pending) : \A e \in pending[k] : e[1] # x
            IN /\ Emit(Tok(n, "def", Len(out) + 1, {}))
               /\ pending' = [pending EXCEPT ![Len(pending)] = pending[Len(pending)] \cup {<<n, Len(out) + 1>>}]
               /\ todo' = Rest /\ UNCHANGED <<frames, budget>>
       \* a label after a value of unknown type, spelled like a name that may be in scope as a value: it denotes nothing
       [] h.s = "UNKFIELD" ->
            \E n \in Pick(Names \cup {"c"}) :
               /\ Emit(Tok(n, "field", 0, {}))
               /\ todo' = Rest /\ UNCHANGED <<frames, pending, budget>>
       [] h.s = "ALTPAT" ->
            \* second alternative: binds the same single name as the first (tg = the first alternative's binder)
            /\ \E e \in frames[Len(frames)].b :
                 Emit(Tok(e[1], "altdef", e[2], {}))
            /\ todo' = Rest /\ UNCHANGED <<frames, pending, budget>>
       [] h.s \in {"REF", "CALLEE"} ->
            \E n \in Pick(RefNames) :
               /\ Emit(Tok(n, "ref", Resolve(n), Visible))
               /\ todo' = Rest /\ UNCHANGED <<frames, pending, budget>>
       [] h.s = "QUALIFIED" ->
            /\ \E acc \in Pick(Accessors), n \in Pick({"a", "c", "p", "k", "A", "Q", "R", "N"}) :
                 /\ out' = out \o <<Tok("FIELD_ACCESS", "open", 0, {}),
                                    Tok(acc, "modref", LibBase(AccMod(acc)), Visible), Plain("."),
                                    Tok(n, "qref", IF n \in LibPrivate THEN 0 ELSE LibVal(AccMod(acc), n), {}),
                                    Tok("", "close", 0, {})>>
                 /\ todo' = Rest /\ UNCHANGED <<frames, pending, budget>>
       [] h.s \in {"CTOR", "PCTOR"} ->
            \E acc \in Pick(Accessors) :
               /\ out' = out \o <<Tok(acc, IF h.s = "CTOR" THEN "modref" ELSE "pmodref", LibBase(AccMod(acc)), {}), Plain("."),
                                  Tok("A", "qref", LibVal(AccMod(acc), "A"), {})>>
                             \o (IF h.s = "CTOR" THEN <<Plain("("), Plain("1"), Plain(")")>> ELSE <<>>)
               /\ todo' = Rest /\ UNCHANGED <<frames, pending, budget>>
       [] OTHER ->
            \E p \in Pick({p \in Prods(h) : p.c <= budget /\ Allowed(p.p)}) :
               /\ todo' = p.r \o Rest
               /\ budget' = budget - p.c
               /\ UNCHANGED <<out, frames, pending>>
  /\ UNCHANGED <<imps, items, v2, v3, phase>>

Done == phase = "body" /\ todo = <<>>

\* Rename (C07): the declaration ids occurring in the program and, for each, the tokens a rename must
\* rewrite - the declaring token and every occurrence bound to it that is spelled with the declaration's own
\* name (an occurrence through an import alias keeps its spelling).  Library declarations are declared in m2 (2001..) and
\* sub/m2 (3001..): the edits in the declaring module are its declaration and its uses there (the harness knows the fixed
\* texts); the other library module is never touched.
LibDeclName == <<"a", "c", "A", "C", "k", "T", "A", "a", "R", "R", "f", "mk", "N">>      \* by offset: values a c A C k, type T, type A, field a, constructor R, type R, field f, function mk
DeclName(d) == IF d >= LibBase("m2") THEN LibDeclName[d % 1000]
               ELSE IF d > ItemBase + CtorZ THEN "Z"
               ELSE IF d > ItemBase + FieldB THEN "b" ELSE IF d > ItemBase + FieldA THEN "a"
               ELSE IF d > ItemBase + CtorU THEN v2 ELSE IF d > ItemBase + CtorT THEN "T"
               ELSE IF d > ItemBase THEN items[d - ItemBase].n ELSE out[d].t
RefRoles == {"def", "spreaddef", "ref", "qref", "impname", "pref", "label", "plabel", "field", "fieldalt", "tref", "qtref"}
DeclIds == {out[i].tg : i \in {j \in 1..Len(out) : out[j].r \in RefRoles /\ out[j].tg # 0}}
RenameSet(d) == {i \in 1..Len(out) : /\ out[i].r \in RefRoles \cup {"altdef"}
                                      /\ out[i].tg = d /\ out[i].t = DeclName(d)}
Renames == {[d |-> d, name |-> DeclName(d), toks |-> RenameSet(d)] : d \in DeclIds}

\* with a fresh name the binding structure is untouched: every rewritten token carries the same target,
\* no other token is spelled with the old name and bound to d (theorem of the edit-set characterisation)
RenameComplete == Done => \A d \in DeclIds : \A i \in 1..Len(out) :
                     (out[i].tg = d /\ out[i].t = DeclName(d) /\ out[i].r # "impalias" /\ out[i].r # "modref") => i \in RenameSet(d)

\* fields offered after `value.` for a value of m1's own type: the fields common to all its variants, in label order
CommonFields == IF ~HasType THEN <<>> ELSE IF v3 THEN <<"a">> ELSE <<"a", "b">>
\* what is offered after `acc.` for every accessor in scope
AccTable == {[acc |-> a, mod |-> AccMod(a), base |-> LibBase(AccMod(a)), members |-> LibMembers(AccMod(a))] : a \in Accessors}
Program == [imp |-> HeaderLabel, imps |-> imps, items |-> items, v2 |-> v2, v3 |-> v3, out |-> out, ren |-> Renames, mods |-> VisibleModules, accs |-> AccTable,
            fields |-> CommonFields]

\* simulation mode: print the finished program and start over
Finish == /\ Sim /\ Done
          /\ PrintT(<<"CASE", ToJson(Program)>>)
          /\ todo' = <<>> /\ out' = <<>> /\ frames' = <<>> /\ pending' = <<>> /\ budget' = Budget
          /\ imps' = <<>> /\ items' = <<>> /\ v2' = "V" /\ v3' = FALSE /\ phase' = "header"

Next == Header \/ Step \/ Finish
Spec == Init /\ [][Next]_vars

-----------------------------------------------------------------------------
(* model invariants *)

\* a binder that is still pending is in no frame: it cannot be seen by its own initialiser
PendingInvisible == \A k \in 1..Len(pending) : \A e \in pending[k] : \A i \in 1..Len(frames) : e \notin frames[i].b

\* every local target of an emitted reference is a binder token emitted earlier with that spelling
TargetsAreBinders ==
    \A i \in 1..Len(out) :
       (out[i].r = "ref" /\ out[i].tg # 0 /\ out[i].tg < ItemBase) =>
           /\ out[i].tg < i
           /\ out[out[i].tg].r \in {"def", "spreaddef"}
           /\ out[out[i].tg].t = out[i].t

\* a finished program has an empty scope stack and balanced brackets
Opens  == Cardinality({i \in 1..Len(out) : out[i].r = "open"})
Closes == Cardinality({i \in 1..Len(out) : out[i].r = "close"})
Balanced == Done => (frames = <<>> /\ pending = <<>> /\ Opens = Closes)

\* Declarative restatement of the scoping rule over the emitted tokens and construct brackets,
\* independent of the operational frame stack: a reference to a local binder b lies
\*  - after the end of the let/use statement that introduces b (not in its own initialiser), and
\*  - inside the construct that delimits b's scope (function, lambda, clause, enclosing block).
RECURSIVE MatchClose(_, _), EnclosingOpen(_, _)
\* index of the close bracket matching the open bracket at i (Len(out)+1 if not emitted yet)
MatchClose(i, d) == IF i > Len(out) THEN Len(out) + 1
                    ELSE IF out[i].r = "open" THEN MatchClose(i + 1, d + 1)
                    ELSE IF out[i].r = "close" THEN (IF d = 1 THEN i ELSE MatchClose(i + 1, d - 1))
                    ELSE MatchClose(i + 1, d)
\* index of the innermost open bracket enclosing position i (0 if none); call with (i - 1, 0)
EnclosingOpen(i, d) == IF i < 1 THEN 0
                       ELSE IF out[i].r = "close" THEN EnclosingOpen(i - 1, d + 1)
                       ELSE IF out[i].r = "open" THEN (IF d = 0 THEN i ELSE EnclosingOpen(i - 1, d - 1))
                       ELSE EnclosingOpen(i - 1, d)
ScopeDeclarative ==
    \A u \in 1..Len(out) :
       (out[u].r = "ref" /\ out[u].tg # 0 /\ out[u].tg < ItemBase) =>
          LET b == out[u].tg
              o == EnclosingOpen(b - 1, 0)
          IN /\ o # 0
             /\ IF out[o].t \in {"STMT_LET", "STMT_USE"}
                THEN LET blk == EnclosingOpen(o - 1, 0)
                     IN /\ MatchClose(o, 0) < u                      \* after the statement
                        /\ blk # 0 /\ u < MatchClose(blk, 0)          \* inside the enclosing construct
                ELSE /\ out[o].t \in {"FUNCTION", "LAMBDA", "CLAUSE"}
                     /\ o < u /\ u < MatchClose(o, 0)

EmitCase == (~Sim /\ Done) => PrintT(<<"CASE", ToJson(Program)>>)
=============================================================================
