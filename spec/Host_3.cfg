\* C12 MC, thorough: 3 readers x 2 changes x 2 files x 2 queries per snapshot (safety + liveness)
CONSTANTS
  Readers = {1, 2, 3}
  Files = {1, 2}
  K = 2
  MaxQ = 2
  ExclusiveHost = TRUE
  ChecksFlag = TRUE
  SyntheticWrite = TRUE
  LastWins = TRUE
  MaxDup = 2
  MaxMeta = 0
SPECIFICATION Spec
INVARIANTS TypeOK Isolation NoTornRead Frozen CancelledOnlyIfPending VersionsDistinct NoIntermediate
PROPERTIES Prompt SnapshotSeesCommitted ApplyEffect
CHECK_DEADLOCK TRUE
