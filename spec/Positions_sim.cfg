CONSTANTS MaxLen = 600  EmitAll = FALSE
SPECIFICATION Spec
INVARIANTS Emit
CHECK_DEADLOCK FALSE
