CONSTANTS MaxPkgs = 4 NNames = 4 MaxMods = 2 TestDirs = TRUE NBases = 3 NSchemes = 2 Sim = TRUE
SPECIFICATION Spec
INVARIANTS TypeOK RootsDistinct RootOfIsInnermost ModuleNameInjective ResolveIsFunction ResolveIsVisible ImportsAcyclic DepsShape
CHECK_DEADLOCK FALSE
