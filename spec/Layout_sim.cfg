CONSTANTS MaxPkgs = 4 NameIdx = {1, 2, 3, 4, 5, 6, 7, 8, 9, 10, 11, 12} Palette = 4 MaxMods = 2 TestDirs = TRUE NBases = 3 NSchemes = 2
          Entries = {"version", "path", "none"} Places = {"packages", "sibling", "nested"} Sim = TRUE
SPECIFICATION Spec
INVARIANTS TypeOK RootsDistinct ExternalIsPlace RootOfIsInnermost ModuleNameInjective ResolveIsFunction ResolveIsVisible DropIsLocal ImportsAcyclic DepsShape
CHECK_DEADLOCK FALSE
