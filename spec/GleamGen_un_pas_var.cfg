CONSTANTS Budget = 7 MaxItems = 3 Sim = TRUE Headers = "all"
  Masked = {"none_pas_var"}
SPECIFICATION Spec
INVARIANTS PendingInvisible TargetsAreBinders Balanced ScopeDeclarative
CHECK_DEADLOCK FALSE
