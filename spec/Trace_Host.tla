----------------------------- MODULE Trace_Host -----------------------------
(***************************************************************************)
(* Trace validation for Host (C12).  The file IOEnv.TRACE holds many runs   *)
(* of harness/src/bin/hostrace.rs, one event per line in the order of the   *)
(* global sequence number taken at each linearization point:                *)
(*   reset      refs[v+1][q] = hash a fresh single-threaded analysis of      *)
(*              version v gives for query q of this run's menu               *)
(*   Snapshot   r, ver        (stamped while the host is borrowed)           *)
(*   QueryStart r, q                                                         *)
(*   QueryEnd   r, q, res ("ok" | "cancelled" | "panic"), h                  *)
(*   Drop       r             (stamped before the snapshot is dropped)       *)
(*   ApplyBegin c, touch      (stamped before apply_change is called; touch = *)
(*              the writes the Change carries in queue order: 0 = roots /     *)
(*              package graph write, -f = an intermediate text of file f,     *)
(*              f = the text of file f in version c)                          *)
(*   ApplyEnd   c, ms         (stamped after it returned)                    *)
(*   end        (appended by the driver: everything must be quiescent)       *)
(* A trace is accepted iff it is the projection of a behaviour of Host on    *)
(* these events AND every ok-hash equals the reference of the version the    *)
(* MODEL says the snapshot has AND every apply_change met the deadline.      *)
(*                                                                          *)
(* Host steps that the harness cannot see are taken without consuming a      *)
(* line, at the one point where doing so loses no behaviour:                 *)
(*  - the reads of a query (QueryStep) as early as possible - inputs are     *)
(*    frozen while the snapshot lives and the flag can only go up, so early  *)
(*    reads are possible whenever later ones are;                            *)
(*  - raising the flag (ApplyBegin) as late as possible - just before the    *)
(*    first line that needs it (a cancelled QueryEnd, or ApplyEnd): a later  *)
(*    flag only removes obligations (a query that starts after the flag is   *)
(*    up must come back Cancelled);                                          *)
(*  - lock acquisition and the stores (ApplyAcquire, ApplySet, the later     *)
(*    ApplyBegins) just before ApplyEnd - no snapshot can be taken in        *)
(*    between (ExclusiveHost), so nothing can observe the difference.        *)
(* Because of these unlogged steps acceptance is not measured by the depth   *)
(* of the state graph but by a TLC register holding the furthest line that   *)
(* any path consumed (run with -workers 1).                                  *)
(***************************************************************************)
EXTENDS Host, Json, IOUtils

CONSTANT DeadlineMs

Rec == ndJsonDeserialize(IOEnv.TRACE)

VARIABLES l,     \* next line to match
          base   \* line of the reset event of the current run
tvars == <<vars, l, base>>

Reg == 7
Consume == /\ l' = l + 1
           /\ TLCSet(Reg, IF l + 1 > TLCGet(Reg) THEN l + 1 ELSE TLCGet(Reg))

TInit == Init /\ l = 1 /\ base = 1 /\ TLCSet(Reg, 1)

Ev == Rec[l]
IsEv(e) == l <= Len(Rec) /\ Ev.ev = e
NextIs(e) == IsEv(e)

Quiescent == wpc = "idle" /\ \A r \in Readers : rpc[r] = "idle"

RefHash(v, q) == Rec[base].refs[v + 1][q]

----------------------------------------------------------------------------
(* logged events *)

TReset == /\ IsEv("reset") /\ Quiescent               \* the previous run ended with everything dropped / returned
          /\ ver' = 0 /\ inputs' = [f \in Files |-> 0] /\ inputsAt' = <<[f \in Files |-> 0]>>
          /\ pendingWrite' = FALSE /\ wpc' = "idle" /\ todo' = <<>> /\ batch' = <<>> /\ chg' = 0
          /\ rpc' = [r \in Readers |-> "idle"] /\ snapVer' = [r \in Readers |-> 0]
          /\ acc' = [r \in Readers |-> Unread] /\ tick' = [r \in Readers |-> FALSE]
          /\ nq' = [r \in Readers |-> 0] /\ result' = [r \in Readers |-> NoResult]
          /\ base' = l /\ Consume

TEnd == IsEv("end") /\ Quiescent /\ UNCHANGED <<vars, base>> /\ Consume

TSnapshot == /\ IsEv("Snapshot") /\ Ev.r \in Readers
             /\ Snapshot(Ev.r)
             /\ snapVer'[Ev.r] = Ev.ver               \* the version the reader was told = the model's
             /\ UNCHANGED base /\ Consume

TQueryStart == /\ IsEv("QueryStart") /\ Ev.r \in Readers
               /\ QueryStart(Ev.r)
               /\ UNCHANGED base /\ Consume

TQueryEndOk == /\ IsEv("QueryEnd") /\ Ev.res = "ok" /\ Ev.r \in Readers
               /\ QueryFinish(Ev.r)
               /\ Ev.h = RefHash(snapVer[Ev.r], Ev.q)  \* the answer for the snapshot's own workspace
               /\ UNCHANGED base /\ Consume

TQueryEndCancelled == /\ IsEv("QueryEnd") /\ Ev.res = "cancelled" /\ Ev.r \in Readers
                      /\ QueryStep(Ev.r)
                      /\ result'[Ev.r].kind = "cancelled"
                      /\ UNCHANGED base /\ Consume

TDrop == /\ IsEv("Drop") /\ Ev.r \in Readers
         /\ Drop(Ev.r)
         /\ UNCHANGED base /\ Consume

TApplyBegin == /\ IsEv("ApplyBegin")
               /\ WellFormedTodo(Ev.touch)             \* the last content queued for a file is its text in version c
               /\ ApplyCallWith(<<0>> \o Ev.touch)     \* request_cancellation, then the Change's writes in queue order
               /\ chg' = Ev.c
               /\ UNCHANGED base /\ Consume

TApplyEnd == /\ IsEv("ApplyEnd")
             /\ ApplyEnd
             /\ ver' = Ev.c
             /\ Ev.ms <= DeadlineMs                    \* changes cancel, never block
             /\ UNCHANGED base /\ Consume

Logged == \/ TReset \/ TEnd \/ TSnapshot \/ TQueryStart \/ TQueryEndOk \/ TQueryEndCancelled
          \/ TDrop \/ TApplyBegin \/ TApplyEnd

----------------------------------------------------------------------------
(* unlogged steps *)

EagerPending(r) == rpc[r] = "running" /\ ~pendingWrite /\ \E f \in Files : acc[r][f] = -1
FirstUnread(r) == CHOOSE f \in Files : acc[r][f] = -1 /\ \A g \in Files : acc[r][g] = -1 => f <= g

EagerRead == \E r \in Readers :
               /\ EagerPending(r) /\ \A s \in Readers : EagerPending(s) => r <= s
               /\ QueryStep(r)
               /\ acc'[r][FirstUnread(r)] # -1
               /\ UNCHANGED <<l, base>>

NeedsFlag == \/ NextIs("ApplyEnd")
             \/ (NextIs("QueryEnd") /\ Ev.res = "cancelled")

WriterInternal == /\ \/ (NeedsFlag /\ ApplyBegin)
                     \/ (NextIs("ApplyEnd") /\ ApplyAcquire)
                     \/ (NextIs("ApplyEnd") /\ ApplySet)
                  /\ UNCHANGED <<l, base>>

TNext == IF \E r \in Readers : EagerPending(r) THEN EagerRead ELSE (Logged \/ WriterInternal)

TSpec == TInit /\ [][TNext]_tvars

(* POSTCONDITION: the furthest line consumed by any path must be the last one *)
Accepted == IF TLCGet(Reg) = Len(Rec) + 1 THEN TRUE
            ELSE Print(<<"REJECTED", TLCGet(Reg)>>, FALSE)
=============================================================================
