------------------------- MODULE Trace_TreeBuilder -------------------------
(***************************************************************************)
(* Trace validation for TreeBuilder: each line of the trace file is one    *)
(* real parse recorded by the hook parse_module_traced:                    *)
(*   raw : token classes, ev : sequence of <<kind, cursorAfter>>,          *)
(*   fin : cursor after the final flush.                                   *)
(* A line is accepted iff its event stream is a behaviour of TreeBuilder   *)
(* (contract of the parser + rule of the builder) ending in phase "done".  *)
(***************************************************************************)
EXTENDS TreeBuilder, Json, IOUtils

Rec == ndJsonDeserialize(IOEnv.TRACE)

VARIABLES tr,   \* trace line being replayed
          k     \* next event of that line
tvars == <<raw, phase, depth, advLeft, cursor, out, oob, tr, k>>

Load(i) == /\ raw' = Rec[i].raw /\ phase' = "lex" /\ depth' = 0 /\ advLeft' = 0
           /\ cursor' = 0 /\ out' = <<>> /\ oob' = FALSE

TInit == /\ tr = 1 /\ k = 1
         /\ raw = Rec[1].raw /\ phase = "lex" /\ depth = 0 /\ advLeft = 0
         /\ cursor = 0 /\ out = <<>> /\ oob = FALSE

Ev == Rec[tr].ev[k]
IsEv(e) == tr <= Len(Rec) /\ k <= Len(Rec[tr].ev) /\ Ev[1] = e

TStep == /\ \/ (IsEv("open") /\ k = 1 /\ OpenRoot)
            \/ (IsEv("open") /\ k > 1 /\ Open)
            \/ (IsEv("close") /\ Close)
            \/ (IsEv("adv") /\ Advance)
         /\ cursor' = Ev[2]              \* bind the logged cursor
         /\ k' = k + 1 /\ tr' = tr

TFinish == /\ tr <= Len(Rec) /\ k = Len(Rec[tr].ev) + 1
           /\ Finish
           /\ cursor' = Rec[tr].fin
           /\ k' = k + 1 /\ tr' = tr

TNextTrace == /\ tr <= Len(Rec) /\ phase = "done"
              /\ tr' = tr + 1 /\ k' = 1
              /\ IF tr + 1 <= Len(Rec) THEN Load(tr + 1)
                 ELSE UNCHANGED <<raw, phase, depth, advLeft, cursor, out, oob>>

TNext == TStep \/ TFinish \/ TNextTrace
TSpec == TInit /\ [][TNext]_tvars

RECURSIVE Steps(_)
Steps(i) == IF i = 0 THEN 0 ELSE Steps(i - 1) + Len(Rec[i].ev) + 2

Accepted == IF TLCGet("stats").diameter - 1 = Steps(Len(Rec)) THEN TRUE
            ELSE Print(<<"REJECTED", TLCGet("stats").diameter - 1>>, FALSE)
=============================================================================
