const a: Int 1 = 1
const b = 2