fn main(a, b) {
  let a = 
}
