pub fn case_kw(a, b) {
  case 
}

fn pattern_module() {
  case a {
    local.
  }
}

fn case_nonsense() {
  case()
}

fn todo_kw() {
  todo
}