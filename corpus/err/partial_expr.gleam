fn main() {
    1 +
}

fn wobble() -> {
    1
}