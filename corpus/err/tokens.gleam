fn%
.@fn([(,_//\nn@\u{7b8}