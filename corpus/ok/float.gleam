const b = 1.1
