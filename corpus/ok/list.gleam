//// Lists are an ordered sequence of elements and are one of the most common
//// data types in Gleam.
////
//// New elements can be added and removed from the front of a list in
//// constant time, while adding and removing from the end requires traversing
//// the copying the whole list, so keep this in mind when designing your
//// programs.
////
//// There is a dedicated syntax for prefixing to a list:
////
//// ```gleam
//// let new_list = [1, 2, ..existing_list]
//// ```
////
//// And a matching syntax for getting the first elements of a list:
////
//// ```gleam
//// case list {
////   [first_element, ..rest] -> first_element
////   _ -> "this pattern matches when the list is empty"
//// }
//// ```
////

import gleam/int
import gleam/float
import gleam/order.{Order}
import gleam/pair
import gleam/map.{Map}

/// An error value returned by the `strict_zip` function.
///
pub type LengthMismatch {
  LengthMismatch
}

/// Counts the number of elements in a given list.
///
/// This function has to traverse the list to determine the number of elements,
/// so it runs in linear time.
///
/// This function is natively implemented by the virtual machine and is highly
/// optimised.
///
/// ## Examples
///
/// ```gleam
/// > length([])
/// 0
/// ```
///
/// ```gleam
/// > length([1])
/// 1
/// ```
///
/// ```gleam
/// > length([1, 2])
/// 2
/// ```
///
pub fn length(of list: List(a)) -> Int {
  do_length(list)
}

@target(erlang)
@external(erlang, "erlang", "length")
fn do_length(a: List(a)) -> Int

@target(javascript)
fn do_length(list: List(a)) -> Int {
  do_length_acc(list, 0)
}

@target(javascript)
fn do_length_acc(list: List(a), count: Int) -> Int {
  case list {
    [_, ..list] -> do_length_acc(list, count + 1)
    _ -> count
  }
}

/// Creates a new list from a given list containing the same elements but in the
/// opposite order.
///
/// This function has to traverse the list to create the new reversed list, so
/// it runs in linear time.
///
/// This function is natively implemented by the virtual machine and is highly
/// optimised.
///
/// ## Examples
///
/// ```gleam
/// > reverse([])
/// []
/// ```
///
/// ```gleam
/// > reverse([1])
/// [1]
/// ```
///
/// ```gleam
/// > reverse([1, 2])
/// [2, 1]
/// ```
///
pub fn reverse(xs: List(a)) -> List(a) {
  do_reverse(xs)
}

@target(erlang)
@external(erlang, "lists", "reverse")
fn do_reverse(a: List(a)) -> List(a)

@target(javascript)
fn do_reverse(list) {
  do_reverse_acc(list, [])
}

@target(javascript)
fn do_reverse_acc(remaining, accumulator) {
  case remaining {
    [] -> accumulator
    [item, ..rest] -> do_reverse_acc(rest, [item, ..accumulator])
  }
}

/// Determines whether or not the list is empty.
///
/// This function runs in constant time.
///
/// ## Examples
///
/// ```gleam
/// > is_empty([])
/// True
/// ```
///
/// ```gleam
/// > is_empty([1])
/// False
/// ```
///
/// ```gleam
/// > is_empty([1, 1])
/// False
/// ```
///
pub fn is_empty(list: List(a)) -> Bool {
  list == []
}

/// Determines whether or not a given element exists within a given list.
///
/// This function traverses the list to find the element, so it runs in linear
/// time.
///
/// ## Examples
///
/// ```gleam
/// > [] |> contains(any: 0)
/// False
/// ```
///
/// ```gleam
/// > [0] |> contains(any: 0)
/// True
/// ```
///
/// ```gleam
/// > [1] |> contains(any: 0)
/// False
/// ```
///
/// ```gleam
/// > [1, 1] |> contains(any: 0)
/// False
/// ```
///
/// ```gleam
/// > [1, 0] |> contains(any: 0)
/// True
/// ```
///
pub fn contains(list: List(a), any elem: a) -> Bool {
  case list {
    [] -> False
    [first, ..] if first == elem -> True
    [_, ..rest] -> contains(rest, elem)
  }
}

/// Gets the first element from the start of the list, if there is one.
///
/// ## Examples
///
/// ```gleam
/// > first([])
/// Error(Nil)
/// ```
///
/// ```gleam
/// > first([0])
/// Ok(0)
/// ```
///
/// ```gleam
/// > first([1, 2])
/// Ok(1)
/// ```
///
pub fn first(list: List(a)) -> Result(a, Nil) {
  case list {
    [] -> Error(Nil)
    [x, ..] -> Ok(x)
  }
}

/// Returns the list minus the first element. If the list is empty, `Error(Nil)` is
/// returned.
///
/// This function runs in constant time and does not make a copy of the list.
///
/// ## Examples
///
/// ```gleam
/// > rest([])
/// Error(Nil)
/// ```
///
/// ```gleam
/// > rest([0])
/// Ok([])
/// ```
///
/// ```gleam
/// > rest([1, 2])
/// Ok([2])
/// ```
///
pub fn rest(list: List(a)) -> Result(List(a), Nil) {
  case list {
    [] -> Error(Nil)
    [_, ..xs] -> Ok(xs)
  }
}

fn update_group(
  f: fn(element) -> key,
) -> fn(Map(key, List(element)), element) -> Map(key, List(element)) {
  fn(groups, elem) {
    case map.get(groups, f(elem)) {
      Ok(existing) -> map.insert(groups, f(elem), [elem, ..existing])
      Error(_) -> map.insert(groups, f(elem), [elem])
    }
  }
}

/// Takes a list and groups the values by a key
/// which is built from a key function.
///
/// Does not preserve the initial value order.
///
/// ## Examples
///
/// ```gleam
/// > [Ok(3), Error("Wrong"), Ok(200), Ok(73)]
///   |> group(by: fn(i) {
///     case i {
///       Ok(_) -> "Successful"
///       Error(_) -> "Failed"
///     }
///   })
///   |> map.to_list
///
/// [
///   #("Failed", [Error("Wrong")]),
///   #("Successful", [Ok(73), Ok(200), Ok(3)])
/// ]
///
/// > group(from: [1,2,3,4,5], with: fn(i) {fn(i) { i - i / 3 * 3 }})
/// |> map.to_list
/// [#(0, [3]), #(1, [4, 1]), #(2, [5, 2])]
/// ```
///
pub fn group(list: List(v), by key: fn(v) -> k) -> Map(k, List(v)) {
  fold(list, map.new(), update_group(key))
}

fn do_filter(list: List(a), fun: fn(a) -> Bool, acc: List(a)) -> List(a) {
  case list {
    [] -> reverse(acc)
    [x, ..xs] -> {
      let new_acc = case fun(x) {
        True -> [x, ..acc]
        False -> acc
      }
      do_filter(xs, fun, new_acc)
    }
  }
}

/// Returns a new list containing only the elements from the first list for
/// which the given functions returns `True`.
///
/// ## Examples
///
/// ```gleam
/// > filter([2, 4, 6, 1], fn(x) { x > 2 })
/// [4, 6]
/// ```
///
/// ```gleam
/// > filter([2, 4, 6, 1], fn(x) { x > 6 })
/// []
/// ```
///
pub fn filter(list: List(a), for predicate: fn(a) -> Bool) -> List(a) {
  do_filter(list, predicate, [])
}

fn do_filter_map(
  list: List(a),
  fun: fn(a) -> Result(b, e),
  acc: List(b),
) -> List(b) {
  case list {
    [] -> reverse(acc)
    [x, ..xs] -> {
      let new_acc = case fun(x) {
        Ok(x) -> [x, ..acc]
        Error(_) -> acc
      }
      do_filter_map(xs, fun, new_acc)
    }
  }
}

/// Returns a new list containing only the elements from the first list for
/// which the given functions returns `Ok(_)`.
///
/// ## Examples
///
/// ```gleam
/// > filter_map([2, 4, 6, 1], Error)
/// []
/// ```
///
/// ```gleam
/// > filter_map([2, 4, 6, 1], fn(x) { Ok(x + 1) })
/// [3, 5, 7, 2]
/// ```
///
pub fn filter_map(list: List(a), with fun: fn(a) -> Result(b, e)) -> List(b) {
  do_filter_map(list, fun, [])
}

fn do_map(list: List(a), fun: fn(a) -> b, acc: List(b)) -> List(b) {
  case list {
    [] -> reverse(acc)
    [x, ..xs] -> do_map(xs, fun, [fun(x), ..acc])
  }
}

/// Returns a new list containing only the elements of the first list after the
/// function has been applied to each one.
///
/// ## Examples
///
/// ```gleam
/// > map([2, 4, 6], fn(x) { x * 2 })
/// [4, 8, 12]
/// ```
///
pub fn map(list: List(a), with fun: fn(a) -> b) -> List(b) {
  do_map(list, fun, [])
}

/// Combines two lists into a single list using the given function.
/// 
/// If a list is longer than the other the extra elements are dropped.
/// 
/// ## Examples
/// 
/// ```gleam
/// > map2([1, 2, 3], [4, 5, 6], fn(x, y) { x + y })
/// [5, 7, 9]
/// ```
/// 
/// ```gleam
/// > map2([1, 2], ["a", "b", "c"], fn(i, x) { #(i, x) })
/// [#(1, "a"), #(2, "b")]
/// ```
/// 
pub fn map2(list1: List(a), list2: List(b), with fun: fn(a, b) -> c) -> List(c) {
  do_map2(list1, list2, fun, [])
}

fn do_map2(
  list1: List(a),
  list2: List(b),
  fun: fn(a, b) -> c,
  acc: List(c),
) -> List(c) {
  case list1, list2 {
    [], _ | _, [] -> reverse(acc)
    [a, ..as_], [b, ..bs] -> do_map2(as_, bs, fun, [fun(a, b), ..acc])
  }
}

/// Similar to `map` but also lets you pass around an accumulated value.
///
/// ## Examples
///
/// ```gleam
/// > map_fold(
///     over: [1, 2, 3],
///     from: 100,
///     with: fn(memo, i) { #(memo + i, i * 2) }
///   )
/// #(106, [2, 4, 6])
/// ```
///
pub fn map_fold(
  over list: List(a),
  from acc: acc,
  with fun: fn(acc, a) -> #(acc, b),
) -> #(acc, List(b)) {
  fold(
    over: list,
    from: #(acc, []),
    with: fn(acc, item) {
      let #(current_acc, items) = acc
      let #(next_acc, next_item) = fun(current_acc, item)
      #(next_acc, [next_item, ..items])
    },
  )
  |> pair.map_second(reverse)
}

fn do_index_map(
  list: List(a),
  fun: fn(Int, a) -> b,
  index: Int,
  acc: List(b),
) -> List(b) {
  case list {
    [] -> reverse(acc)
    [x, ..xs] -> {
      let acc = [fun(index, x), ..acc]
      do_index_map(xs, fun, index + 1, acc)
    }
  }
}

/// Returns a new list containing only the elements of the first list after the
/// function has been applied to each one and their index.
///
/// The index starts at 0, so the first element is 0, the second is 1, and so
/// on.
///
/// ## Examples
///
/// ```gleam
/// > index_map(["a", "b"], fn(i, x) { #(i, x) })
/// [#(0, "a"), #(1, "b")]
/// ```
///
pub fn index_map(list: List(a), with fun: fn(Int, a) -> b) -> List(b) {
  do_index_map(list, fun, 0, [])
}

fn do_try_map(
  list: List(a),
  fun: fn(a) -> Result(b, e),
  acc: List(b),
) -> Result(List(b), e) {
  case list {
    [] -> Ok(reverse(acc))
    [x, ..xs] ->
      case fun(x) {
        Ok(y) -> do_try_map(xs, fun, [y, ..acc])
        Error(error) -> Error(error)
      }
  }
}

/// Takes a function that returns a `Result` and applies it to each element in a
/// given list in turn.
///
/// If the function returns `Ok(new_value)` for all elements in the list then a
/// list of the new values is returned.
///
/// If the function returns `Error(reason)` for any of the elements then it is
/// returned immediately. None of the elements in the list are processed after
/// one returns an `Error`.
///
/// ## Examples
///
/// ```gleam
/// > try_map([1, 2, 3], fn(x) { Ok(x + 2) })
/// Ok([3, 4, 5])
/// ```
///
/// ```gleam
/// > try_map([1, 2, 3], fn(_) { Error(0) })
/// Error(0)
/// ```
///
/// ```gleam
/// > try_map([[1], [2, 3]], first)
/// Ok([1, 2])
/// ```
///
/// ```gleam
/// > try_map([[1], [], [2]], first)
/// Error(Nil)
/// ```
///
pub fn try_map(
  over list: List(a),
  with fun: fn(a) -> Result(b, e),
) -> Result(List(b), e) {
  do_try_map(list, fun, [])
}

/// Returns a list that is the given list with up to the given number of
/// elements removed from the front of the list.
///
/// If the element has less than the number of elements an empty list is
/// returned.
///
/// This function runs in linear time but does not copy the list.
///
/// ## Examples
///
/// ```gleam
/// > drop([1, 2, 3, 4], 2)
/// [3, 4]
/// ```
///
/// ```gleam
/// > drop([1, 2, 3, 4], 9)
/// []
/// ```
///
pub fn drop(from list: List(a), up_to n: Int) -> List(a) {
  case n <= 0 {
    True -> list
    False ->
      case list {
        [] -> []
        [_, ..xs] -> drop(xs, n - 1)
      }
  }
}

fn do_take(list: List(a), n: Int, acc: List(a)) -> List(a) {
  case n <= 0 {
    True -> reverse(acc)
    False ->
      case list {
        [] -> reverse(acc)
        [x, ..xs] -> do_take(xs, n - 1, [x, ..acc])
      }
  }
}

/// Returns a list containing the first given number of elements from the given
/// list.
///
/// If the element has less than the number of elements then the full list is
/// returned.
///
/// This function runs in linear time but does not copy the list.
///
/// ## Examples
///
/// ```gleam
/// > take([1, 2, 3, 4], 2)
/// [1, 2]
/// ```
///
/// ```gleam
/// > take([1, 2, 3, 4], 9)
/// [1, 2, 3, 4]
/// ```
///
pub fn take(from list: List(a), up_to n: Int) -> List(a) {
  do_take(list, n, [])
}

/// Returns a new empty list.
///
/// ## Examples
///
/// ```gleam
/// > new()
/// []
/// ```
///
pub fn new() -> List(a) {
  []
}

/// Joins one list onto the end of another.
///
/// This function runs in linear time, and it traverses and copies the first
/// list.
///
/// ## Examples
///
/// ```gleam
/// > append([1, 2], [3])
/// [1, 2, 3]
/// ```
///
pub fn append(first: List(a), second: List(a)) -> List(a) {
  do_append(first, second)
}

@target(erlang)
@external(erlang, "lists", "append")
fn do_append(a: List(a), b: List(a)) -> List(a)

@target(javascript)
fn do_append(first: List(a), second: List(a)) -> List(a) {
  do_append_acc(reverse(first), second)
}

@target(javascript)
fn do_append_acc(first: List(a), second: List(a)) -> List(a) {
  case first {
    [] -> second
    [item, ..rest] -> do_append_acc(rest, [item, ..second])
  }
}

/// Prefixes an item to a list. This can also be done using the dedicated
/// syntax instead
///
/// ```gleam
/// let new_list = [1, ..existing_list]
/// ```
///
pub fn prepend(to list: List(a), this item: a) -> List(a) {
  [item, ..list]
}

// Reverses a list and prepends it to another list
fn reverse_and_prepend(list prefix: List(a), to suffix: List(a)) -> List(a) {
  case prefix {
    [] -> suffix
    [first, ..rest] -> reverse_and_prepend(list: rest, to: [first, ..suffix])
  }
}

fn do_concat(lists: List(List(a)), acc: List(a)) -> List(a) {
  case lists {
    [] -> reverse(acc)
    [list, ..further_lists] ->
      do_concat(further_lists, reverse_and_prepend(list: list, to: acc))
  }
}

/// Joins a list of lists into a single list.
///
/// This function traverses all elements twice.
///
/// ## Examples
///
/// ```gleam
/// > concat([[1], [2, 3], []])
/// [1, 2, 3]
/// ```
///
pub fn concat(lists: List(List(a))) -> List(a) {
  do_concat(lists, [])
}

// TODO: Add deprecation attribute and then remove later.
/// This function is deprecated, see `concat` instead.
pub fn flatten(lists: List(List(a))) -> List(a) {
  do_concat(lists, [])
}

/// Maps the list with the given function into a list of lists, and then flattens it.
///
/// ## Examples
///
/// ```gleam
/// > flat_map([2, 4, 6], fn(x) { [x, x + 1] })
/// [2, 3, 4, 5, 6, 7]
/// ```
///
pub fn flat_map(over list: List(a), with fun: fn(a) -> List(b)) -> List(b) {
  map(list, fun)
  |> concat
}

/// Reduces a list of elements into a single value by calling a given function
/// on each element, going from left to right.
///
/// `fold([1, 2, 3], 0, add)` is the equivalent of
/// `add(add(add(0, 1), 2), 3)`.
///
/// This function runs in linear time.
///
pub fn fold(
  over list: List(a),
  from initial: acc,
  with fun: fn(acc, a) -> acc,
) -> acc {
  case list {
    [] -> initial
    [x, ..rest] -> fold(rest, fun(initial, x), fun)
  }
}

/// Reduces a list of elements into a single value by calling a given function
/// on each element, going from right to left.
///
/// `fold_right([1, 2, 3], 0, add)` is the equivalent of
/// `add(add(add(0, 3), 2), 1)`.
///
/// This function runs in linear time.
///
/// Unlike `fold` this function is not tail recursive. Where possible use
/// `fold` instead as it will use less memory.
///
pub fn fold_right(
  over list: List(a),
  from initial: acc,
  with fun: fn(acc, a) -> acc,
) -> acc {
  case list {
    [] -> initial
    [x, ..rest] -> fun(fold_right(rest, initial, fun), x)
  }
}

fn do_index_fold(
  over: List(a),
  acc: acc,
  with: fn(acc, a, Int) -> acc,
  index: Int,
) -> acc {
  case over {
    [] -> acc
    [first, ..rest] ->
      do_index_fold(rest, with(acc, first, index), with, index + 1)
  }
}

/// Like fold but the folding function also receives the index of the current element.
///
/// ## Examples
///
/// ```gleam
/// ["a", "b", "c"]
/// |> index_fold([], fn(acc, item, index) { ... })
/// ```
///
pub fn index_fold(
  over over: List(a),
  from initial: acc,
  with fun: fn(acc, a, Int) -> acc,
) -> acc {
  do_index_fold(over, initial, fun, 0)
}

/// A variant of fold that might fail.
///
/// The folding function should return `Result(accumulator, error)`.
/// If the returned value is `Ok(accumulator)` try_fold will try the next value in the list.
/// If the returned value is `Error(error)` try_fold will stop and return that error.
///
/// ## Examples
///
/// ```gleam
/// [1, 2, 3, 4]
/// |> try_fold(0, fn(acc, i) {
///   case i < 3 {
///     True -> Ok(acc + i)
///     False -> Error(Nil)
///   }
/// })
/// ```
///
pub fn try_fold(
  over collection: List(a),
  from accumulator: acc,
  with fun: fn(acc, a) -> Result(acc, e),
) -> Result(acc, e) {
  case collection {
    [] -> Ok(accumulator)
    [first, ..rest] ->
      case fun(accumulator, first) {
        Ok(result) -> try_fold(rest, result, fun)
        Error(_) as error -> error
      }
  }
}

pub type ContinueOrStop(a) {
  Continue(a)
  Stop(a)
}

/// A variant of fold that allows to stop folding earlier.
///
/// The folding function should return `ContinueOrStop(accumulator)`.
/// If the returned value is `Continue(accumulator)` fold_until will try the next value in the list.
/// If the returned value is `Stop(accumulator)` fold_until will stop and return that accumulator.
///
/// ## Examples
///
/// ```gleam
/// [1, 2, 3, 4]
/// |> fold_until(0, fn(acc, i) {
///   case i < 3 {
///     True -> Continue(acc + i)
///     False -> Stop(acc)
///   }
/// })
/// ```
///
pub fn fold_until(
  over collection: List(a),
  from accumulator: acc,
  with fun: fn(acc, a) -> ContinueOrStop(acc),
) -> acc {
  case collection {
    [] -> accumulator
    [first, ..rest] ->
      case fun(accumulator, first) {
        Continue(next_accumulator) -> fold_until(rest, next_accumulator, fun)
        Stop(b) -> b
      }
  }
}

/// Finds the first element in a given list for which the given function returns
/// `True`.
///
/// Returns `Error(Nil)` if no such element is found.
///
/// ## Examples
///
/// ```gleam
/// > find([1, 2, 3], fn(x) { x > 2 })
/// Ok(3)
/// ```
///
/// ```gleam
/// > find([1, 2, 3], fn(x) { x > 4 })
/// Error(Nil)
/// ```
///
/// ```gleam
/// > find([], fn(_) { True })
/// Error(Nil)
/// ```
///
pub fn find(
  in haystack: List(a),
  one_that is_desired: fn(a) -> Bool,
) -> Result(a, Nil) {
  case haystack {
    [] -> Error(Nil)
    [x, ..rest] ->
      case is_desired(x) {
        True -> Ok(x)
        _ -> find(in: rest, one_that: is_desired)
      }
  }
}

/// Finds the first element in a given list for which the given function returns
/// `Ok(new_value)`, then returns the wrapped `new_value`.
///
/// Returns `Error(Nil)` if no such element is found.
///
/// ## Examples
///
/// ```gleam
/// > find_map([[], [2], [3]], first)
/// Ok(2)
/// ```
///
/// ```gleam
/// > find_map([[], []], first)
/// Error(Nil)
/// ```
///
/// ```gleam
/// > find_map([], first)
/// Error(Nil)
/// ```
///
pub fn find_map(
  in haystack: List(a),
  with fun: fn(a) -> Result(b, c),
) -> Result(b, Nil) {
  case haystack {
    [] -> Error(Nil)
    [x, ..rest] ->
      case fun(x) {
        Ok(x) -> Ok(x)
        _ -> find_map(in: rest, with: fun)
      }
  }
}

/// Returns `True` if the given function returns `True` for all the elements in
/// the given list. If the function returns `False` for any of the elements it
/// immediately returns `False` without checking the rest of the list.
///
/// ## Examples
///
/// ```gleam
/// > all([], fn(x) { x > 3 })
/// True
/// ```
///
/// ```gleam
/// > all([4, 5], fn(x) { x > 3 })
/// True
/// ```
///
/// ```gleam
/// > all([4, 3], fn(x) { x > 3 })
/// False
/// ```
///
pub fn all(in list: List(a), satisfying predicate: fn(a) -> Bool) -> Bool {
  case list {
    [] -> True
    [first, ..rest] ->
      case predicate(first) {
        True -> all(rest, predicate)
        False -> False
      }
  }
}

/// Returns `True` if the given function returns `True` for any the elements in
/// the given list. If the function returns `True` for any of the elements it
/// immediately returns `True` without checking the rest of the list.
///
/// ## Examples
///
/// ```gleam
/// > any([], fn(x) { x > 3 })
/// False
/// ```
///
/// ```gleam
/// > any([4, 5], fn(x) { x > 3 })
/// True
/// ```
///
/// ```gleam
/// > any([4, 3], fn(x) { x > 4 })
/// False
/// ```
///
/// ```gleam
/// > any([3, 4], fn(x) { x > 3 })
/// True
/// ```
///
pub fn any(in list: List(a), satisfying predicate: fn(a) -> Bool) -> Bool {
  case list {
    [] -> False
    [first, ..rest] ->
      case predicate(first) {
        True -> True
        False -> any(rest, predicate)
      }
  }
}

fn do_zip(xs: List(a), ys: List(b), acc: List(#(a, b))) -> List(#(a, b)) {
  case xs, ys {
    [x, ..xs], [y, ..ys] -> do_zip(xs, ys, [#(x, y), ..acc])
    _, _ -> reverse(acc)
  }
}

/// Takes two lists and returns a single list of 2-element tuples.
///
/// If one of the lists is longer than the other, the remaining elements from
/// the longer list are not used.
///
/// ## Examples
///
/// ```gleam
/// > zip([], [])
/// []
/// ```
///
/// ```gleam
/// > zip([1, 2], [3])
/// [#(1, 3)]
/// ```
///
/// ```gleam
/// > zip([1], [3, 4])
/// [#(1, 3)]
/// ```
///
/// ```gleam
/// > zip([1, 2], [3, 4])
/// [#(1, 3), #(2, 4)]
/// ```
///
pub fn zip(list: List(a), with other: List(b)) -> List(#(a, b)) {
  do_zip(list, other, [])
}

/// Takes two lists and returns a single list of 2-element tuples.
///
/// If one of the lists is longer than the other, an `Error` is returned.
///
/// ## Examples
///
/// ```gleam
/// > strict_zip([], [])
/// Ok([])
/// ```
///
/// ```gleam
/// > strict_zip([1, 2], [3])
/// Error(LengthMismatch)
/// ```
///
/// ```gleam
/// > strict_zip([1], [3, 4])
/// Error(LengthMismatch)
/// ```
///
/// ```gleam
/// > strict_zip([1, 2], [3, 4])
/// Ok([#(1, 3), #(2, 4)])
/// ```
///
pub fn strict_zip(
  list: List(a),
  with other: List(b),
) -> Result(List(#(a, b)), LengthMismatch) {
  case length(of: list) == length(of: other) {
    True -> Ok(zip(list, other))
    False -> Error(LengthMismatch)
  }
}

fn do_unzip(input, xs, ys) {
  case input {
    [] -> #(reverse(xs), reverse(ys))
    [#(x, y), ..rest] -> do_unzip(rest, [x, ..xs], [y, ..ys])
  }
}

/// Takes a single list of 2-element tuples and returns two lists.
///
/// ## Examples
///
/// ```gleam
/// > unzip([#(1, 2), #(3, 4)])
/// #([1, 3], [2, 4])
/// ```
///
/// ```gleam
/// > unzip([])
/// #([], [])
/// ```
///
pub fn unzip(input: List(#(a, b))) -> #(List(a), List(b)) {
  do_unzip(input, [], [])
}

fn do_intersperse(list: List(a), separator: a, acc: List(a)) -> List(a) {
  case list {
    [] -> reverse(acc)
    [x, ..rest] -> do_intersperse(rest, separator, [x, separator, ..acc])
  }
}

/// Inserts a given value between each existing element in a given list.
///
/// This function runs in linear time and copies the list.
///
/// ## Examples
///
/// ```gleam
/// > intersperse([1, 1, 1], 2)
/// [1, 2, 1, 2, 1]
/// ```
///
/// ```gleam
/// > intersperse([], 2)
/// []
/// ```
///
pub fn intersperse(list: List(a), with elem: a) -> List(a) {
  case list {
    [] | [_] -> list
    [x, ..rest] -> do_intersperse(rest, elem, [x])
  }
}

/// Returns the element in the Nth position in the list, with 0 being the first
/// position.
///
/// `Error(Nil)` is returned if the list is not long enough for the given index
/// or if the index is less than 0.
///
/// ## Examples
///
/// ```gleam
/// > at([1, 2, 3], 1)
/// Ok(2)
/// ```
///
/// ```gleam
/// > at([1, 2, 3], 5)
/// Error(Nil)
/// ```
///
pub fn at(in list: List(a), get index: Int) -> Result(a, Nil) {
  case index >= 0 {
    True ->
      list
      |> drop(index)
      |> first
    False -> Error(Nil)
  }
}

/// Removes any duplicate elements from a given list.
///
/// This function returns in loglinear time.
///
/// ## Examples
///
/// ```gleam
/// > unique([1, 1, 1, 4, 7, 3, 3, 4])
/// [1, 4, 7, 3]
/// ```
///
pub fn unique(list: List(a)) -> List(a) {
  case list {
    [] -> []
    [x, ..rest] -> [x, ..unique(filter(rest, fn(y) { y != x }))]
  }
}

/// Merge lists `a` and `b` in ascending order
/// but only up to `na` and `nb` number of items respectively.
///
fn merge_up(
  na: Int,
  nb: Int,
  a: List(a),
  b: List(a),
  acc: List(a),
  compare: fn(a, a) -> Order,
) {
  case na, nb, a, b {
    0, 0, _, _ -> acc
    _, 0, [ax, ..ar], _ -> merge_up(na - 1, nb, ar, b, [ax, ..acc], compare)
    0, _, _, [bx, ..br] -> merge_up(na, nb - 1, a, br, [bx, ..acc], compare)
    _, _, [ax, ..ar], [bx, ..br] ->
      case compare(ax, bx) {
        order.Gt -> merge_up(na, nb - 1, a, br, [bx, ..acc], compare)
        _ -> merge_up(na - 1, nb, ar, b, [ax, ..acc], compare)
      }
  }
}

/// Merge lists `a` and `b` in descending order
/// but only up to `na` and `nb` number of items respectively.
///
fn merge_down(
  na: Int,
  nb: Int,
  a: List(a),
  b: List(a),
  acc: List(a),
  compare: fn(a, a) -> Order,
) {
  case na, nb, a, b {
    0, 0, _, _ -> acc
    _, 0, [ax, ..ar], _ -> merge_down(na - 1, nb, ar, b, [ax, ..acc], compare)
    0, _, _, [bx, ..br] -> merge_down(na, nb - 1, a, br, [bx, ..acc], compare)
    _, _, [ax, ..ar], [bx, ..br] ->
      case compare(bx, ax) {
        order.Lt -> merge_down(na - 1, nb, ar, b, [ax, ..acc], compare)
        _ -> merge_down(na, nb - 1, a, br, [bx, ..acc], compare)
      }
  }
}

/// Merge sort that alternates merging in ascending and descending order
/// because the merge process also reverses the list.
///
/// Some copying is avoided by merging only a subset of the lists
/// instead of creating and merging new smaller lists.
///
fn merge_sort(
  l: List(a),
  ln: Int,
  compare: fn(a, a) -> Order,
  down: Bool,
) -> List(a) {
  let n = ln / 2
  let a = l
  let b = drop(l, n)
  case ln < 3 {
    True ->
      case down {
        True -> merge_down(n, ln - n, a, b, [], compare)
        False -> merge_up(n, ln - n, a, b, [], compare)
      }
    False ->
      case down {
        True ->
          merge_down(
            n,
            ln - n,
            merge_sort(a, n, compare, False),
            merge_sort(b, ln - n, compare, False),
            [],
            compare,
          )
        False ->
          merge_up(
            n,
            ln - n,
            merge_sort(a, n, compare, True),
            merge_sort(b, ln - n, compare, True),
            [],
            compare,
          )
      }
  }
}

/// Sorts from smallest to largest based upon the ordering specified by a given
/// function.
///
/// ## Examples
///
/// ```gleam
/// > import gleam/int
/// > list.sort([4, 3, 6, 5, 4, 1, 2], by: int.compare)
/// [1, 2, 3, 4, 4, 5, 6]
/// ```
///
pub fn sort(list: List(a), by compare: fn(a, a) -> Order) -> List(a) {
  merge_sort(list, length(list), compare, True)
}

/// Creates a list of ints ranging from a given start and finish.
///
/// ## Examples
///
/// ```gleam
/// > range(0, 0)
/// [0]
/// ```
///
/// ```gleam
/// > range(0, 5)
/// [0, 1, 2, 3, 4, 5]
/// ```
///
/// ```gleam
/// > range(1, -5)
/// [1, 0, -1, -2, -3, -4, -5]
/// ```
///
pub fn range(from start: Int, to stop: Int) -> List(Int) {
  tail_recursive_range(start, stop, [])
}

fn tail_recursive_range(start: Int, stop: Int, acc: List(Int)) -> List(Int) {
  case int.compare(start, stop) {
    order.Eq -> reverse([stop, ..acc])
    order.Gt -> tail_recursive_range(start - 1, stop, [start, ..acc])
    order.Lt -> tail_recursive_range(start + 1, stop, [start, ..acc])
  }
}

fn do_repeat(a: a, times: Int, acc: List(a)) -> List(a) {
  case times <= 0 {
    True -> acc
    False -> do_repeat(a, times - 1, [a, ..acc])
  }
}

/// Builds a list of a given value a given number of times.
///
/// ## Examples
///
/// ```gleam
/// > repeat("a", times: 0)
/// []
/// ```
///
/// ```gleam
/// > repeat("a", times: 5)
/// ["a", "a", "a", "a", "a"]
/// ```
///
pub fn repeat(item a: a, times times: Int) -> List(a) {
  do_repeat(a, times, [])
}

fn do_split(list: List(a), n: Int, taken: List(a)) -> #(List(a), List(a)) {
  case n <= 0 {
    True -> #(reverse(taken), list)
    False ->
      case list {
        [] -> #(reverse(taken), [])
        [x, ..xs] -> do_split(xs, n - 1, [x, ..taken])
      }
  }
}

/// Splits a list in two before the given index.
///
/// If the list is not long enough to have the given index the before list will
/// be the input list, and the after list will be empty.
///
/// ## Examples
///
/// ```gleam
/// > split([6, 7, 8, 9], 0)
/// #([], [6, 7, 8, 9])
/// ```
///
/// ```gleam
/// > split([6, 7, 8, 9], 2)
/// #([6, 7], [8, 9])
/// ```
///
/// ```gleam
/// > split([6, 7, 8, 9], 4)
/// #([6, 7, 8, 9], [])
/// ```
///
pub fn split(list list: List(a), at index: Int) -> #(List(a), List(a)) {
  do_split(list, index, [])
}

fn do_split_while(
  list: List(a),
  f: fn(a) -> Bool,
  acc: List(a),
) -> #(List(a), List(a)) {
  case list {
    [] -> #(reverse(acc), [])
    [x, ..xs] ->
      case f(x) {
        False -> #(reverse(acc), list)
        _ -> do_split_while(xs, f, [x, ..acc])
      }
  }
}

/// Splits a list in two before the first element that a given function returns
/// `False` for.
///
/// If the function returns `True` for all elements the first list will be the
/// input list, and the second list will be empty.
///
/// ## Examples
///
/// ```gleam
/// > split_while([1, 2, 3, 4, 5], fn(x) { x <= 3 })
/// #([1, 2, 3], [4, 5])
/// ```
///
/// ```gleam
/// > split_while([1, 2, 3, 4, 5], fn(x) { x <= 5 })
/// #([1, 2, 3, 4, 5], [])
/// ```
///
pub fn split_while(
  list list: List(a),
  satisfying predicate: fn(a) -> Bool,
) -> #(List(a), List(a)) {
  do_split_while(list, predicate, [])
}

/// Given a list of 2-element tuples, finds the first tuple that has a given
/// key as the first element and returns the second element.
///
/// If no tuple is found with the given key then `Error(Nil)` is returned.
///
/// This function may be useful for interacting with Erlang code where lists of
/// tuples are common.
///
/// ## Examples
///
/// ```gleam
/// > key_find([#("a", 0), #("b", 1)], "a")
/// Ok(0)
/// ```
///
/// ```gleam
/// > key_find([#("a", 0), #("b", 1)], "b")
/// Ok(1)
/// ```
///
/// ```gleam
/// > key_find([#("a", 0), #("b", 1)], "c")
/// Error(Nil)
/// ```
///
pub fn key_find(
  in keyword_list: List(#(k, v)),
  find desired_key: k,
) -> Result(v, Nil) {
  find_map(
    keyword_list,
    fn(keyword) {
      let #(key, value) = keyword
      case key == desired_key {
        True -> Ok(value)
        False -> Error(Nil)
      }
    },
  )
}

fn do_pop(haystack, predicate, checked) {
  case haystack {
    [] -> Error(Nil)
    [x, ..rest] ->
      case predicate(x) {
        True -> Ok(#(x, append(reverse(checked), rest)))
        False -> do_pop(rest, predicate, [x, ..checked])
      }
  }
}

/// Removes the first element in a given list for which the predicate function returns `True`.
///
/// Returns `Error(Nil)` if no such element is found.
///
/// ## Examples
///
/// ```gleam
/// > pop([1, 2, 3], fn(x) { x > 2 })
/// Ok(#(3, [1, 2]))
/// ```
///
/// ```gleam
/// > pop([1, 2, 3], fn(x) { x > 4 })
/// Error(Nil)
/// ```
///
/// ```gleam
/// > pop([], fn(_) { True })
/// Error(Nil)
/// ```
///
pub fn pop(
  in haystack: List(a),
  one_that is_desired: fn(a) -> Bool,
) -> Result(#(a, List(a)), Nil) {
  do_pop(haystack, is_desired, [])
}

fn do_pop_map(haystack, mapper, checked) {
  case haystack {
    [] -> Error(Nil)
    [x, ..rest] ->
      case mapper(x) {
        Ok(y) -> Ok(#(y, append(reverse(checked), rest)))
        Error(_) -> do_pop_map(rest, mapper, [x, ..checked])
      }
  }
}

/// Removes the first element in a given list for which the given function returns
/// `Ok(new_value)`, then returns the wrapped `new_value` as well as list with the value removed.
///
/// Returns `Error(Nil)` if no such element is found.
///
/// ## Examples
///
/// ```gleam
/// > pop_map([[], [2], [3]], first)
/// Ok(#(2, [[], [3]]))
/// ```
///
/// ```gleam
/// > pop_map([[], []], first)
/// Error(Nil)
/// ```
///
/// ```gleam
/// > pop_map([], first)
/// Error(Nil)
/// ```
///
pub fn pop_map(
  in haystack: List(a),
  one_that is_desired: fn(a) -> Result(b, c),
) -> Result(#(b, List(a)), Nil) {
  do_pop_map(haystack, is_desired, [])
}

/// Given a list of 2-element tuples, finds the first tuple that has a given
/// key as the first element. This function will return the second element
/// of the found tuple and list with tuple removed.
///
/// If no tuple is found with the given key then `Error(Nil)` is returned.
///
/// ## Examples
///
/// ```gleam
/// > key_pop([#("a", 0), #("b", 1)], "a")
/// Ok(#(0, [#("b", 1)]))
/// ```
///
/// ```gleam
/// > key_pop([#("a", 0), #("b", 1)], "b")
/// Ok(#(1, [#("a", 0)]))
/// ```
///
/// ```gleam
/// > key_pop([#("a", 0), #("b", 1)], "c")
/// Error(Nil)
/// ```
///
pub fn key_pop(
  haystack: List(#(k, v)),
  key: k,
) -> Result(#(v, List(#(k, v))), Nil) {
  pop_map(
    haystack,
    fn(entry) {
      let #(k, v) = entry
      case k {
        k if k == key -> Ok(v)
        _ -> Error(Nil)
      }
    },
  )
}

/// Given a list of 2-element tuples, inserts a key and value into the list.
///
/// If there was already a tuple with the key then it is replaced, otherwise it
/// is added to the end of the list.
///
/// ## Examples
///
/// ```gleam
/// > key_set([#(5, 0), #(4, 1)], 4, 100)
/// [#(5, 0), #(4, 100)]
/// ```
///
/// ```gleam
/// > key_set([#(5, 0), #(4, 1)], 1, 100)
/// [#(5, 0), #(4, 1), #(1, 100)]
/// ```
///
pub fn key_set(list: List(#(a, b)), key: a, value: b) -> List(#(a, b)) {
  case list {
    [] -> [#(key, value)]
    [#(k, _), ..rest] if k == key -> [#(key, value), ..rest]
    [first, ..rest] -> [first, ..key_set(rest, key, value)]
  }
}

/// Calls a function for each element in a list, discarding the return value.
///
/// Useful for calling a side effect for every item of a list.
///
/// ```gleam
/// > list.each([1, 2, 3], io.println)
/// Nil
/// ```
///
pub fn each(list: List(a), f: fn(a) -> b) -> Nil {
  case list {
    [] -> Nil
    [x, ..xs] -> {
      f(x)
      each(xs, f)
    }
  }
}

/// Calls a `Result` returning function for each element in a list, discarding
/// the return value. If the function returns `Error` then the iteration is
/// stopped and the error is returned.
///
/// Useful for calling a side effect for every item of a list.
///
/// ## Examples
///
/// ```gleam
/// > try_each(
/// >   over: [1, 2, 3],
/// >   with: function_that_might_fail,
/// > )
/// Ok(Nil)
/// ```
///
pub fn try_each(
  over list: List(a),
  with fun: fn(a) -> Result(b, e),
) -> Result(Nil, e) {
  case list {
    [] -> Ok(Nil)
    [x, ..xs] ->
      case fun(x) {
        Ok(_) -> try_each(over: xs, with: fun)
        Error(e) -> Error(e)
      }
  }
}

fn do_partition(list, categorise, trues, falses) {
  case list {
    [] -> #(reverse(trues), reverse(falses))
    [x, ..xs] ->
      case categorise(x) {
        True -> do_partition(xs, categorise, [x, ..trues], falses)
        False -> do_partition(xs, categorise, trues, [x, ..falses])
      }
  }
}

/// Partitions a list into a tuple/pair of lists
/// by a given categorisation function.
///
/// ## Examples
///
/// ```gleam
/// > [1, 2, 3, 4, 5] |> list.partition(int.is_odd)
/// #([1, 3, 5], [2, 4])
/// ```
///
pub fn partition(
  list: List(a),
  with categorise: fn(a) -> Bool,
) -> #(List(a), List(a)) {
  do_partition(list, categorise, [], [])
}

/// Returns all the permutations of a list.
///
/// ## Examples
///
/// ```gleam
/// > permutations([1, 2])
/// [[1, 2], [2, 1]]
/// ```
///
pub fn permutations(l: List(a)) -> List(List(a)) {
  case l {
    [] -> [[]]
    _ ->
      l
      |> index_map(fn(i_idx, i) {
        l
        |> index_fold(
          [],
          fn(acc, j, j_idx) {
            case i_idx == j_idx {
              True -> acc
              False -> [j, ..acc]
            }
          },
        )
        |> reverse
        |> permutations
        |> map(fn(permutation) { [i, ..permutation] })
      })
      |> concat
  }
}

fn do_window(acc: List(List(a)), l: List(a), n: Int) -> List(List(a)) {
  let window = take(l, n)

  case length(window) == n {
    True -> do_window([window, ..acc], drop(l, 1), n)
    False -> acc
  }
}

/// Returns a list of sliding windows.
///
/// ## Examples
///
/// ```gleam
/// > window([1,2,3,4,5], 3)
/// [[1, 2, 3], [2, 3, 4], [3, 4, 5]]
/// ```
///
/// ```gleam
/// > window([1, 2], 4)
/// []
/// ```
///
pub fn window(l: List(a), by n: Int) -> List(List(a)) {
  do_window([], l, n)
  |> reverse
}

/// Returns a list of tuples containing two contiguous elements.
///
/// ## Examples
///
/// ```gleam
/// > window_by_2([1,2,3,4])
/// [#(1, 2), #(2, 3), #(3, 4)]
/// ```
///
/// ```gleam
/// > window_by_2([1])
/// []
/// ```
///
pub fn window_by_2(l: List(a)) -> List(#(a, a)) {
  zip(l, drop(l, 1))
}

/// Drops the first elements in a given list for which the predicate function returns `True`.
///
/// ## Examples
///
/// ```gleam
/// > drop_while([1, 2, 3, 4], fn (x) { x < 3 })
/// [3, 4]
/// ```
///
pub fn drop_while(
  in list: List(a),
  satisfying predicate: fn(a) -> Bool,
) -> List(a) {
  case list {
    [] -> []
    [x, ..xs] ->
      case predicate(x) {
        True -> drop_while(xs, predicate)
        False -> [x, ..xs]
      }
  }
}

fn do_take_while(
  list: List(a),
  predicate: fn(a) -> Bool,
  acc: List(a),
) -> List(a) {
  case list {
    [] -> reverse(acc)
    [first, ..rest] ->
      case predicate(first) {
        True -> do_take_while(rest, predicate, [first, ..acc])
        False -> reverse(acc)
      }
  }
}

/// Takes the first elements in a given list for which the predicate function returns `True`.
///
/// ## Examples
///
/// ```gleam
/// > take_while([1, 2, 3, 2, 4], fn (x) { x < 3 })
/// [1, 2]
/// ```
///
pub fn take_while(
  in list: List(a),
  satisfying predicate: fn(a) -> Bool,
) -> List(a) {
  do_take_while(list, predicate, [])
}

fn do_chunk(
  list: List(a),
  f: fn(a) -> key,
  previous_key: key,
  current_chunk: List(a),
  acc: List(List(a)),
) -> List(List(a)) {
  case list {
    [first, ..rest] -> {
      let key = f(first)
      case key == previous_key {
        False -> {
          let new_acc = [reverse(current_chunk), ..acc]
          do_chunk(rest, f, key, [first], new_acc)
        }
        _true -> do_chunk(rest, f, key, [first, ..current_chunk], acc)
      }
    }
    _empty -> reverse([reverse(current_chunk), ..acc])
  }
}

/// Returns a list of chunks in which
/// the return value of calling `f` on each element is the same.
///
/// ## Examples
///
/// ```gleam
/// > [1, 2, 2, 3, 4, 4, 6, 7, 7] |> chunk(by: fn(n) { n % 2 })
/// [[1], [2, 2], [3], [4, 4, 6], [7, 7]]
/// ```
///
pub fn chunk(in list: List(a), by f: fn(a) -> key) -> List(List(a)) {
  case list {
    [] -> []
    [first, ..rest] -> do_chunk(rest, f, f(first), [first], [])
  }
}

fn do_sized_chunk(
  list: List(a),
  count: Int,
  left: Int,
  current_chunk: List(a),
  acc: List(List(a)),
) -> List(List(a)) {
  case list {
    [] ->
      case current_chunk {
        [] -> reverse(acc)
        remaining -> reverse([reverse(remaining), ..acc])
      }
    [first, ..rest] -> {
      let chunk = [first, ..current_chunk]
      case left > 1 {
        False -> do_sized_chunk(rest, count, count, [], [reverse(chunk), ..acc])
        True -> do_sized_chunk(rest, count, left - 1, chunk, acc)
      }
    }
  }
}

/// Returns a list of chunks containing `count` elements each.
///
/// If the last chunk does not have `count` elements, it is instead
/// a partial chunk, with less than `count` elements.
///
/// For any `count` less than 1 this function behaves as if it was set to 1.
///
/// ## Examples
///
/// ```gleam
/// > [1, 2, 3, 4, 5, 6] |> sized_chunk(into: 2)
/// [[1, 2], [3, 4], [5, 6]]
/// ```
///
/// ```gleam
/// > [1, 2, 3, 4, 5, 6, 7, 8] |> sized_chunk(into: 3)
/// [[1, 2, 3], [4, 5, 6], [7, 8]]
/// ```
///
pub fn sized_chunk(in list: List(a), into count: Int) -> List(List(a)) {
  do_sized_chunk(list, count, count, [], [])
}

/// This function acts similar to fold, but does not take an initial state.
/// Instead, it starts from the first element in the list
/// and combines it with each subsequent element in turn using the given
/// function. The function is called as `fun(accumulator, current_element)`.
///
/// Returns `Ok` to indicate a successful run, and `Error` if called on an
/// empty list.
///
/// ## Examples
///
/// ```gleam
/// > [] |> reduce(fn(acc, x) { acc + x })
/// Error(Nil)
/// ```
///
/// ```gleam
/// > [1, 2, 3, 4, 5] |> reduce(fn(acc, x) { acc + x })
/// Ok(15)
/// ```
///
pub fn reduce(over list: List(a), with fun: fn(a, a) -> a) -> Result(a, Nil) {
  case list {
    [] -> Error(Nil)
    [first, ..rest] -> Ok(fold(rest, first, fun))
  }
}

fn do_scan(
  list: List(a),
  accumulator: acc,
  accumulated: List(acc),
  fun: fn(acc, a) -> acc,
) -> List(acc) {
  case list {
    [] -> reverse(accumulated)
    [x, ..xs] -> {
      let next = fun(accumulator, x)
      do_scan(xs, next, [next, ..accumulated], fun)
    }
  }
}

/// Similar to `fold`, but yields the state of the accumulator at each stage.
///
/// ## Examples
///
/// ```gleam
/// > scan(over: [1, 2, 3], from: 100, with: fn(acc, i) { acc + i })
/// [101, 103, 106]
/// ```
///
pub fn scan(
  over list: List(a),
  from initial: acc,
  with fun: fn(acc, a) -> acc,
) -> List(acc) {
  do_scan(list, initial, [], fun)
}

/// Returns the last element in the given list.
///
/// Returns `Error(Nil)` if the list is empty.
///
/// This function runs in linear time.
/// For a collection oriented around performant access at either end,
/// see `gleam/queue.Queue`.
///
/// ## Examples
///
/// ```gleam
/// > last([])
/// Error(Nil)
/// ```
///
/// ```gleam
/// > last([1, 2, 3, 4, 5])
/// Ok(5)
/// ```
///
pub fn last(list: List(a)) -> Result(a, Nil) {
  list
  |> reduce(fn(_, elem) { elem })
}

/// Return unique combinations of elements in the list.
///
/// ## Examples
///
/// ```gleam
/// > combinations([1, 2, 3], 2)
/// [[1, 2], [1, 3], [2, 3]]
/// ```
///
/// ```gleam
/// > combinations([1, 2, 3, 4], 3)
/// [[1, 2, 3], [1, 2, 4], [1, 3, 4], [2, 3, 4]]
/// ```
///
pub fn combinations(items: List(a), by n: Int) -> List(List(a)) {
  case n {
    0 -> [[]]
    _ ->
      case items {
        [] -> []
        [x, ..xs] -> {
          let first_combinations =
            map(combinations(xs, n - 1), with: fn(com) { [x, ..com] })
            |> reverse
          fold(
            first_combinations,
            combinations(xs, n),
            fn(acc, c) { [c, ..acc] },
          )
        }
      }
  }
}

fn do_combination_pairs(items: List(a)) -> List(List(#(a, a))) {
  case items {
    [] -> []
    [x, ..xs] -> {
      let first_combinations = map(xs, with: fn(other) { #(x, other) })
      [first_combinations, ..do_combination_pairs(xs)]
    }
  }
}

/// Return unique pair combinations of elements in the list
///
/// ## Examples
///
/// ```gleam
/// > combination_pairs([1, 2, 3])
/// [#(1, 2), #(1, 3), #(2, 3)]
/// ```
///
pub fn combination_pairs(items: List(a)) -> List(#(a, a)) {
  do_combination_pairs(items)
  |> concat
}

/// Make a list alternating the elements from the given lists
///
/// ## Examples
///
/// ```gleam
/// > list.interleave([[1, 2], [101, 102], [201, 202]])
/// [1, 101, 201, 2, 102, 202]
/// ```
///
pub fn interleave(list: List(List(a))) -> List(a) {
  transpose(list)
  |> concat
}

/// Transpose rows and columns of the list of lists.
///
/// Notice: This function is not tail recursive,
/// and thus may exceed stack size if called,
/// with large lists (on target JavaScript).
///
/// ## Examples
///
/// ```gleam
/// > transpose([[1, 2, 3], [101, 102, 103]])
/// [[1, 101], [2, 102], [3, 103]]
/// ```
///
pub fn transpose(list_of_list: List(List(a))) -> List(List(a)) {
  let take_first = fn(list) {
    case list {
      [] -> []
      [f] -> [f]
      [f, ..] -> [f]
    }
  }

  case list_of_list {
    [] -> []
    [[], ..xss] -> transpose(xss)
    rows -> {
      let firsts =
        rows
        |> map(take_first)
        |> concat
      let rest = transpose(map(rows, drop(_, 1)))
      [firsts, ..rest]
    }
  }
}

fn do_shuffle_pair_unwrap(list: List(#(Float, a)), acc: List(a)) -> List(a) {
  case list {
    [] -> acc
    _ -> {
      let [elem_pair, ..enumerable] = list
      do_shuffle_pair_unwrap(enumerable, [elem_pair.1, ..acc])
    }
  }
}

fn do_shuffle_by_pair_indexes(
  list_of_pairs: List(#(Float, a)),
) -> List(#(Float, a)) {
  sort(
    list_of_pairs,
    fn(a_pair: #(Float, a), b_pair: #(Float, a)) -> Order {
      float.compare(a_pair.0, b_pair.0)
    },
  )
}

/// Takes a list, randomly sorts all items and returns the shuffled list.
///
/// This function uses Erlang's `:rand` module or Javascript's
/// `Math.random()` to calcuate the index shuffling.
///
/// ## Example
///
/// ```gleam
/// > range(1, 10)
/// > |> shuffle()
/// [1, 6, 9, 10, 3, 8, 4, 2, 7, 5]
/// ```
///
pub fn shuffle(list: List(a)) -> List(a) {
  list
  |> fold(from: [], with: fn(acc, a) { [#(float.random(0.0, 1.0), a), ..acc] })
  |> do_shuffle_by_pair_indexes()
  |> do_shuffle_pair_unwrap([])
}
